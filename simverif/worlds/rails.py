"""RAILS world: a real LLMRails instance on SimLoop with SimLLM, SimEmbeddingModel and simulated
rail / dialog actions.  Used by C01, C02, C03, C15, C16, C17.

A *spec* (JSON) fully describes the configuration; a *RailsWorld* builds the instance, owns the
seam history and runs turns.  All texts carry id tokens (``#c0t1#``) so every string in a prompt or
reply is attributable, refusal texts are unique per rail, and LLM-made texts carry ``LLM[..]``.
"""
import asyncio
import contextlib
import io
import logging
import re

from ..kernel import control, seams
from ..kernel.draws import Draws
from ..peers import embed as embed_peer
from ..peers import llm as llm_peer

TOK_RE = re.compile(r"#c\d+t\d+#")
GENERATION_TASKS = {"general", "generate_user_intent", "generate_next_steps", "generate_bot_message", "generate_intent_steps_message", "generate_value",
                    "generate_user_intent_from_user_action", "generate_flow_continuation", "generate_flow_from_instructions", "generate_flow_from_name",
                    "generate_value_from_instruction", "generate_user_intent_and_bot_action_from_user_action", "generate_flow_continuation_from_flow_nld", "unknown"}
RAIL_TASKS = {"self_check_input", "self_check_output", "self_check_facts", "self_check_hallucination"}
INTERNAL_ERROR = "I'm sorry, an internal error has occurred."

N_TOPICS = 3


def refusal(rail):
    return "REFUSED-%s." % rail


def exc_message(rail):
    return "EXC-%s blocked" % rail


def rewritten(rail, text):
    """Rewriting keeps the id token, drops everything else (in particular SECRET markers)."""
    toks = TOK_RE.findall(text)
    return "RW[%s] %s" % (rail, " ".join(toks))


def last_tok(text):
    m = TOK_RE.findall(text or "")
    return m[-1] if m else None


# ------------------------------------------------------------------------------------------------
# configuration builders
# ------------------------------------------------------------------------------------------------

def _yaml_models():
    return ("models:\n  - type: main\n    engine: openai\n    model: sim\n"
            "  - type: embeddings\n    engine: SimEmbed\n    model: sim\n")


def build_v1(spec):
    y = _yaml_models()
    ins = spec.get("in_rails", [])
    outs = spec.get("out_rails", [])
    y += "rails:\n"
    if ins:
        y += "  input:\n    flows:\n" + "".join("      - %s\n" % _rail_flow_name("in", i, r) for i, r in enumerate(ins))
    if outs:
        y += "  output:\n    flows:\n" + "".join("      - %s\n" % _rail_flow_name("out", i, r) for i, r in enumerate(outs))
    mode = spec.get("mode", "rails_only")
    rets = int(spec.get("ret_rails", 0))
    if rets:
        y += "  retrieval:\n    flows:\n" + "".join("      - ret rail %d\n" % i for i in range(rets))
    y += "  dialog:\n    single_call:\n      enabled: %s\n" % ("true" if mode == "single_call" else "false")
    if mode == "embeddings_only":
        y += "    user_messages:\n      embeddings_only: true\n"
    if not ins and not outs:
        pass
    if spec.get("exceptions"):
        y += "enable_rails_exceptions: true\n"
    if mode in ("passthrough", "passthrough_dialog"):
        y += "passthrough: true\n"
    if mode == "multistep":
        y += "enable_multi_step_generation: true\n"
    if spec.get("streaming"):
        y += "streaming: true\n"
    if any(r["kind"] == "shipped" for r in ins + outs):
        y += "prompts:\n"
        if any(r["kind"] == "shipped" for r in ins):
            y += "  - task: self_check_input\n    content: |-\n      CHECKIN {{ user_input }}\n      Should it be blocked (Yes or No)?\n"
        if any(r["kind"] == "shipped" for r in outs):
            y += "  - task: self_check_output\n    content: |-\n      CHECKOUT {{ bot_response }}\n      Should it be blocked (Yes or No)?\n"
    co = []
    for side_, rails_ in (("in", ins), ("out", outs)):
        names = ["%s%d" % (side_, i) for i, r in enumerate(rails_) if r.get("flow_param")]
        seen = False
        for r in rails_:
            r.pop("_first_param", None)
            if r.get("flow_param") and not seen:
                r["_first_param"] = names
                seen = True
    for i in range(rets):
        co.append('define subflow ret rail %d\n  execute sim_retrieval(rail="ret%d")\n' % (i, i))
    for i, r in enumerate(ins):
        co.append(_v1_rail_flow("in", i, r))
    for i, r in enumerate(outs):
        co.append(_v1_rail_flow("out", i, r))
    if mode in ("dialog", "single_call", "multistep", "embeddings_only", "passthrough_dialog"):
        for k in range(N_TOPICS):
            co.append('define user ask topic %d\n  "topic %d"\n  "tell me about topic %d"\n' % (k, k, k))
        # topic 0: predefined bot message; topic 1: LLM-generated bot message after a dialog action; topic 2: generated
        # (optionally the predefined message refers to a context variable of the conversation in template syntax)
        co.append('define bot answer topic 0\n  "PRE[topic0] predefined answer%s."\n' % (" for {{ visitor }}" if spec.get("bot_template_var") else ""))
        co.append("define flow topic 0\n  user ask topic 0\n  bot answer topic 0\n")
        co.append('define flow topic 1\n  user ask topic 1\n  $v = execute sim_dialog(name="d1")\n  bot answer topic 1\n')
        co.append("define flow topic 2\n  user ask topic 2\n  bot answer topic 2\n")
    return y, "\n".join(co)


def _rail_flow_name(side, i, r):
    if r["kind"] == "shipped":
        return "self check input" if side == "in" else "self check output"
    if r.get("flow_param"):
        # a parameterised flow id (as the shipped content-safety rails use: `content safety check output $model=...`): all such
        # rails of a side share one subflow and differ in the parameter value
        return "content safety check %s $railid=%s%d" % (side, side, i)
    return "%s rail %d" % (side, i)


def _v1_rail_flow(side, i, r):
    rail = "%s%d" % (side, i)
    var = "user_message" if side == "in" else "bot_message"
    exc = "InputRailException" if side == "in" else "OutputRailException"
    if r["kind"] == "shipped":
        return ""
    if r["kind"] == "rewrite_assign":
        return 'define subflow %s rail %d\n  $%s = execute sim_rewrite(rail="%s")\n' % (side, i, var, rail)
    if r.get("flow_param"):
        # the shared subflow is emitted once per side (by the first parameterised rail); the refusal messages are per rail
        first = r.get("_first_param")
        out = 'define bot refuse {rail}\n  "{ref}"\n'.format(rail=rail, ref=refusal(rail))
        if first is not None:
            chain = "".join('      %s $railid == "%s"\n        bot refuse %s\n' % ("if" if k == 0 else "else if", rl, rl) for k, rl in enumerate(first))
            echain = "".join('      %s $railid == "%s"\n        create event %s(message="%s")\n' % ("if" if k == 0 else "else if", rl, exc, exc_message(rl)) for k, rl in enumerate(first))
            out += ('define subflow content safety check {side}\n  $allowed = execute sim_rail(rail=$railid{tp})\n  if not $allowed\n'
                    '    if $config.enable_rails_exceptions\n{echain}    else\n{chain}    stop\n\n').format(side=side, echain=echain, chain=chain, tp=(", text=$%s" % var) if r.get("text_param") else "")
        return out
    # check (allow / block / rewrite through context_updates); with text_param the checked text is handed over as an explicit
    # action parameter (`text=$bot_message`, as the shipped sensitive-data rails do) instead of being read from the context
    return ('define subflow {side} rail {i}\n  $allowed = execute sim_rail(rail="{rail}"{tp})\n  if not $allowed\n'
            '    if $config.enable_rails_exceptions\n      create event {exc}(message="{msg}")\n    else\n      bot refuse {rail}\n    stop\n\n'
            'define bot refuse {rail}\n  "{ref}"\n').format(side=side, i=i, rail=rail, exc=exc, msg=exc_message(rail), ref=refusal(rail), tp=(", text=$%s" % var) if r.get("text_param") else "")


def build_v2(spec):
    y = "colang_version: 2.x\n" + _yaml_models()
    if spec.get("exceptions"):
        y += "enable_rails_exceptions: true\n"
    ins = spec.get("in_rails", [])
    outs = spec.get("out_rails", [])
    if any(r["kind"] == "shipped" for r in ins + outs):
        y += "prompts:\n"
        if any(r["kind"] == "shipped" for r in ins):
            y += "  - task: self_check_input\n    content: |-\n      CHECKIN {{ user_input }}\n      Should it be blocked (Yes or No)?\n"
        if any(r["kind"] == "shipped" for r in outs):
            y += "  - task: self_check_output\n    content: |-\n      CHECKOUT {{ bot_response }}\n      Should it be blocked (Yes or No)?\n"
    co = ["import core", "import guardrails"]
    if any(r["kind"] == "shipped" for r in ins):
        co.append("import nemoguardrails.library.self_check.input_check")
    if any(r["kind"] == "shipped" for r in outs):
        co.append("import nemoguardrails.library.self_check.output_check")
    co.append("")
    co.append("flow main\n  activate conversation\n" + ("  activate tracker\n  activate groupwatch\n" if spec.get("tracker") else ""))
    if spec.get("tracker"):
        co.append(V2_TRACKER)
    mode = spec.get("mode", "rails_only")
    # one turn: wait for any user utterance (input rails run inside `user said something`), ask the
    # LLM through a simulated generation action (its text is 'LLM made'), say it (output rails run).
    if spec.get("say_empty"):
        # the flow says whatever the LLM produced, an empty message too
        co.append("flow conversation\n  user said something as $u\n  $reply = await SimGenerateAction(text=$u.transcript)\n  bot say $reply\n")
    else:
        co.append("flow conversation\n  user said something as $u\n  $reply = await SimGenerateAction(text=$u.transcript)\n"
                  "  if $reply\n    bot say $reply\n  else\n    bot say \"" + INTERNAL_ERROR + "\"\n")
    if ins:
        body = "".join("  in rail r%d $input_text\n" % i for i in range(len(ins)))
        co.append("flow input rails $input_text\n" + body)
        for i, r in enumerate(ins):
            co.append(_v2_rail_flow("in", i, r))
    if outs:
        body = "".join("  out rail r%d $output_text\n" % i for i in range(len(outs)))
        co.append("flow output rails $output_text\n" + body)
        for i, r in enumerate(outs):
            co.append(_v2_rail_flow("out", i, r))
    return y, "\n".join(co)


# C11 (API family): a flow in its own interaction loop that lives across turns and keeps values of the types the
# property names (regex, set, nested containers, a reference to an event) and makes them observable in later turns
V2_TRACKER = '''
@loop("tracker")
flow tracker
  $pat = regex("topic ([0-9])")
  $marks = {"a", "b"}
  $nest = {"k": {"n": [1, {"z": "q"}]}}
  $topics = []
  $n = 0
  match UtteranceUserActionFinished() as $first
  while True
    match UtteranceUserActionFinished() as $ev
    $n = $n + 1
    $topics = $topics + find_all($pat, $ev.final_transcript)
    if $n == 1 or $n == 3
      await UtteranceBotAction(script="TRK {$n} {$topics} {len($marks)} {$nest} first={$first.final_transcript} re={search($pat, $ev.final_transcript)}")

@loop("groupwatch")
flow groupwatch
  $g = 0
  while True
    # the turn boundary (state saved / restored / aged) falls while this flow waits inside a group, with forked heads
    match UtteranceUserActionFinished(final_transcript=regex("topic 1")) or UtteranceUserActionFinished(final_transcript=regex("topic 2"))
    $g = $g + 1
    match UtteranceUserActionFinished(final_transcript=regex("topic [01]")) and UtteranceUserActionFinished(final_transcript=regex("topic [12]"))
    await UtteranceBotAction(script="GW {$g} after the groups")
'''


V2_LLM_COLANG = '''
import core
import llm

flow main
  activate llm continuation
  activate greeting
  activate value flow
  activate say like

flow greeting
  user expressed greeting
  bot say "PRE[hello] predefined answer."

flow user expressed greeting
  """User expressed greeting in any way or form."""
  user said "hi"

flow value flow
  user said "value please"
  $v = ..."Produce a short value"
  bot say $v

flow say like
  user said "paraphrase please"
  bot say something like "a nice day"
'''


def build_v2_llm(spec):
    """Colang 2.x LLM flows: intent detection, flow continuation / generation, value generation."""
    return "colang_version: 2.x\n" + _yaml_models(), V2_LLM_COLANG


def _v2_rail_flow(side, i, r):
    rail = "%s%d" % (side, i)
    exc = "InputRailException" if side == "in" else "OutputRailException"
    par = "$input_text" if side == "in" else "$output_text"
    if r["kind"] == "shipped":
        flow = "self check input" if side == "in" else "self check output"
        return "flow %s rail r%d %s\n  %s\n" % (side, i, par, flow)
    return ('flow {side} rail r{i} {par}\n  $allowed = await SimRailAction(rail="{rail}", text={par})\n  if not $allowed\n'
            '    if $system.config.enable_rails_exceptions\n      send {exc}(message="{msg}")\n    else\n      bot say "{ref}"\n    abort\n'
            ).format(side=side, i=i, par=par, rail=rail, exc=exc, msg=exc_message(rail), ref=refusal(rail))


# ------------------------------------------------------------------------------------------------
# the responder: a pure function of (task, prompt) and the scenario tables
# ------------------------------------------------------------------------------------------------

class Responder:
    def __init__(self, spec):
        self.spec = spec
        self.verdicts = spec.get("verdicts", {})
        self.intents = spec.get("intents", {})  # tok -> "topic k" | "free"

    def verdict(self, rail, tok):
        return self.verdicts.get(rail, {}).get(tok or "", "allow")

    def llm_text(self, tok, kind="g"):
        body = (self.spec.get("llm_body") or {}).get(tok or "")
        if body is not None:
            return "LLM[%s%s] %s" % (kind, tok or "#none#", body)
        tail = (self.spec.get("llm_suffix") or {}).get(tok or "")
        return "LLM[%s%s] generated answer%s" % (kind, tok or "#none#", (" ~%s~" % tail) if tail else "")

    def intent_for(self, tok):
        it = self.intents.get(tok or "", "free")
        if it.startswith("topic"):
            return "ask " + it
        return "ask other %s" % (tok or "x").strip("#")

    def __call__(self, call):
        task, prompt = call.task, call.prompt
        if not isinstance(prompt, str):
            prompt = "\n".join(str(m.get("content")) for m in prompt)
        tok = last_tok(prompt)
        if self.spec.get("mode") == "v2_llm":
            # Colang 2.x generation does not label its LLM calls: infer the step from the prompt's last line
            tail = prompt.rstrip().split("\n")[-1].strip()
            if tail == "user intent:":
                last_user = prompt.split("user action:")[-1]
                return " user expressed greeting" if "hello" in last_user else " user asked something else"
            if tail == "bot intent:":
                return ' bot provided info\nbot action: bot say "%s"' % self.llm_text(tok, "c")
            if tail.startswith("$") and tail.endswith("="):
                return ' "%s"' % self.llm_text(tok, "v")
            return '"%s"' % self.llm_text(tok, "x")
        if self.spec.get("streaming") and self.spec.get("mode") == "single_call" and task not in ("generate_bot_message", "self_check_input", "self_check_output") \
                and prompt.rstrip().endswith('"') and prompt.rstrip().split("\n")[-1].startswith("user "):
            # with a streaming handler generation.py starts the single-call LLM task without labelling it (LLMCallInfo is
            # only set on the non-streaming branch): recognise the call by the shape of its prompt
            task = "generate_intent_steps_message"
        if task == "self_check_input":
            rail = self._shipped_rail("in")
            return "Yes" if self.verdict(rail, tok) == "block" else "No"
        if task == "self_check_output":
            rail = self._shipped_rail("out")
            return "Yes" if self.verdict(rail, tok) == "block" else "No"
        if task == "generate_user_intent":
            return "  " + self.intent_for(tok)
        if task == "generate_next_steps":
            it = self.intents.get(tok or "", "free")
            if self.spec.get("mode") == "multistep":
                return "bot answer other %s\nuser ask topic 0" % (tok or "x").strip("#")
            return "bot answer other %s" % (tok or "x").strip("#")
        tail = (self.spec.get("llm_tail") or {}).get(tok or "", "")  # what a chatty LLM adds after the closing quote
        if tok in (self.spec.get("llm_empty") or ()) and task in ("generate_bot_message", "general", "unknown"):
            # an LLM that has nothing to say in this turn
            return ""
        if task == "generate_bot_message":
            if self.spec.get("mode") == "passthrough_dialog":
                # passthrough: the LLM is prompted with the user's own text and its answer is used as it is (no quoting convention)
                return self.llm_text(tok, "m")
            if self.spec.get("verbose_bot_message"):
                # the format the default prompt of this task asks for (output parser verbose_v1); generation.py configures
                # the streaming handler with the matching pattern  prefix='Bot message: "'  suffix='"'
                return 'Bot message: "%s"%s' % (self.llm_text(tok, "m"), tail)
            return '  "%s"%s' % (self.llm_text(tok, "m"), tail)
        if task == "generate_intent_steps_message":
            it = self.intent_for(tok)
            bot = "answer " + it[4:] if it.startswith("ask ") else "answer"
            return '  %s\nbot %s\n  "%s"%s' % (it, bot, self.llm_text(tok, "s"), tail)
        if task == "generate_value":
            return '"value %s"' % (tok or "")
        # general / passthrough / unknown
        return self.llm_text(tok, "g")

    def _shipped_rail(self, side):
        rails = self.spec.get("%s_rails" % side, [])
        for i, r in enumerate(rails):
            if r["kind"] == "shipped":
                return "%s%d" % (side, i)
        return side + "0"


# ------------------------------------------------------------------------------------------------
# the world
# ------------------------------------------------------------------------------------------------

class Fault(Exception):
    pass


class ProviderError(Exception):
    """An error class of the kind client libraries ship: it builds its message from the response it wraps - and the response
    of THIS failure lacks the expected field, so rendering the exception (str / repr) fails itself."""

    def __init__(self, response):
        super().__init__()
        self.response = response

    def __str__(self):
        return "provider error: %s" % self.response["error"]["message"]

    __repr__ = __str__


FAULT_TYPES = {
    "UnprintableError": lambda: ProviderError({"status": 500}),
    "RuntimeError": lambda: RuntimeError("injected action failure"),
    "KeyError": lambda: KeyError("injected-missing-key"),
    "TimeoutError": lambda: asyncio.TimeoutError(),
    "ValueError": lambda: ValueError("injected échec ✗"),
}


class RailsWorld:
    """One LLMRails instance plus peers. ``history`` is the ground-truth seam history."""

    def __init__(self, spec, draws=None, loop_clock=None, latency=None, action_latency=None, quiet=True):
        from nemoguardrails import LLMRails, RailsConfig

        embed_peer.ensure_registered()
        _ensure_library_on_colang_path()
        self.spec = spec
        self.draws = draws
        self.history = []  # dicts: kind in {rail, dialog, llm, gen}
        self.clock = loop_clock or (lambda: 0.0)
        self.action_calls = 0
        self.fault_at = {}  # action call index (1-based, world-wide) -> exception type name
        self.faults_fired = []
        self.action_latency = action_latency or (lambda kind, name, n: 0.0)
        self.responder = Responder(spec)
        self.llm_world = llm_peer.LLMWorld(self._respond, latency_fn=latency, clock=lambda: self.clock())
        self.llm_world.on_call = self._on_llm
        self.llm = llm_peer.make_llm(self.llm_world, streaming=bool(spec.get("streaming")))
        if spec.get("colang", "1.0") == "1.0":
            y, co = build_v1(spec)
        elif spec.get("mode") == "v2_llm":
            y, co = build_v2_llm(spec)
        else:
            y, co = build_v2(spec)
        self.yaml, self.colang = y, co
        self.config = RailsConfig.from_content(colang_content=co, yaml_content=y)
        with _quiet(quiet):
            self.app = LLMRails(self.config, llm=self.llm)
        self._register()

    def rebuild_app(self, quiet=True):
        """A restart of the serving process: a NEW LLMRails instance from the same configuration (same simulated peers)."""
        from nemoguardrails import LLMRails

        with _quiet(quiet):
            self.app = LLMRails(self.config, llm=self.llm)
        self._register()

    # -- peers ----------------------------------------------------------------------------------
    def _respond(self, call):
        return self.responder(call)

    def _rec(self, **kw):
        kw["t"] = round(self.clock(), 6)
        kw["conv"] = llm_peer.conv_var.get()
        self.history.append(kw)
        return kw

    def _on_llm(self, phase, call):
        if phase == "enter":
            self._rec(kind="llm", name=call.task, n=call.n, text=call.prompt if isinstance(call.prompt, str) else repr(call.prompt))
        else:
            self._rec(kind="llm_exit", name=call.task, n=call.n, text=call.reply)

    async def _action_entry(self, kind, name, text):
        self.action_calls += 1
        n = self.action_calls
        rec = self._rec(kind=kind, name=name, text=text, n=n, faulted=False)
        lat = self.action_latency(kind, name, n)
        if lat and lat > 0:
            await asyncio.sleep(lat)
        else:
            await asyncio.sleep(0)
        if n in self.fault_at:
            rec["faulted"] = True
            self.faults_fired.append((n, kind, name))
            raise FAULT_TYPES[self.fault_at[n]]()
        return rec

    def _register(self):
        from nemoguardrails.actions import action
        from nemoguardrails.actions.actions import ActionResult

        world = self
        v2 = self.spec.get("colang", "1.0") != "1.0"

        # rail actions are system actions, like the shipped ones (their results stay out of prompts)
        @action(is_system_action=True, name="sim_rail")
        async def sim_rail(rail, context=None, text=None):
            if text is None:
                text = (context or {}).get("user_message" if rail.startswith("in") else "bot_message")
            rec = await world._action_entry("rail", rail, text)
            v = world.responder.verdict(rail, last_tok(text))
            rec["verdict"] = v
            if v == "block":
                return False
            if v == "rewrite" and not v2:
                key = "user_message" if rail.startswith("in") else "bot_message"
                return ActionResult(return_value=True, context_updates={key: rewritten(rail, text or "")})
            return True

        @action(is_system_action=True, name="sim_rewrite")
        async def sim_rewrite(rail, context=None):
            text = (context or {}).get("user_message" if rail.startswith("in") else "bot_message")
            rec = await world._action_entry("rail", rail, text)
            v = world.responder.verdict(rail, last_tok(text))
            rec["verdict"] = v
            if v == "rewrite":
                return rewritten(rail, text or "")
            return text

        @action(is_system_action=True, name="sim_retrieval")
        async def sim_retrieval(rail, context=None):
            await world._action_entry("retrieval", rail, (context or {}).get("user_message"))
            return True

        async def sim_dialog(name, context=None):
            await world._action_entry("dialog", name, (context or {}).get("user_message"))
            return "value-%s" % name

        async def sim_generate(text=None, llm=None):
            # v2: the generation step of the conversation flow; a custom action that asks the LLM
            from nemoguardrails.actions.llm.utils import llm_call
            from nemoguardrails.context import llm_call_info_var
            from nemoguardrails.logging.explain import LLMCallInfo

            await world._action_entry("dialog", "generate", text)
            llm_call_info_var.set(LLMCallInfo(task="general"))
            return await llm_call(world.llm, "User said: %s\nAnswer:" % text)

        # shipped rails: the real library action, behind a proxy that is a fault point
        for side, name in (("in", "self_check_input"), ("out", "self_check_output")):
            if any(r["kind"] == "shipped" for r in self.spec.get("%s_rails" % side, [])):
                self._wrap_shipped(side, name, "SelfCheckInputAction" if side == "in" else "SelfCheckOutputAction")

        if v2 and self.spec.get("mode") == "v2_llm":
            pass
        elif v2:
            self.app.register_action(sim_rail, "SimRailAction")
            self.app.register_action(sim_generate, "SimGenerateAction")
        else:
            self.app.register_action(sim_rail, "sim_rail")
            self.app.register_action(sim_rewrite, "sim_rewrite")
            self.app.register_action(sim_dialog, "sim_dialog")
            self.app.register_action(sim_retrieval, "sim_retrieval")

    def _wrap_shipped(self, side, v1_name, v2_name):
        import functools

        disp = self.app.runtime.action_dispatcher
        real = disp.get_action(v1_name)
        if real is None:
            raise control.HarnessError("shipped action %s is not registered any more" % v1_name)
        world = self
        rail = self.responder._shipped_rail(side)

        @functools.wraps(real)
        async def proxy(*a, **kw):
            ctx = kw.get("context") or {}
            await world._action_entry("shipped", rail, ctx.get("user_message" if side == "in" else "bot_message"))
            return await real(*a, **kw)

        disp.register_action(proxy, v1_name, override=True)

    # -- driving ----------------------------------------------------------------------------------
    async def generate(self, conv, messages=None, options=None, state=None, streaming_handler=None, prompt=None):
        """One request; returns ("ok", result) or ("exc", exception)."""
        tok = llm_peer.conv_var.set(conv)
        mark = len(self.history)
        self._rec(kind="request", name="begin", text=None)
        try:
            kw = {}
            if options is not None:
                kw["options"] = options
            if state is not None:
                kw["state"] = state
            if streaming_handler is not None:
                kw["streaming_handler"] = streaming_handler
            if prompt is not None:
                res = await self.app.generate_async(prompt=prompt, **kw)
            else:
                res = await self.app.generate_async(messages=[dict(m) for m in messages], **kw)
            out = ("ok", res)
        except control.SimControl:
            raise
        except asyncio.CancelledError:
            raise
        except Exception as e:  # recorded, judged by the property oracle
            out = ("exc", e)
        finally:
            self._rec(kind="request", name="end", text=None)
            llm_peer.conv_var.reset(tok)
        return out

    def llm_calls_since(self, n0):
        return self.llm_world.calls[n0:]


def _ensure_library_on_colang_path():
    """`import nemoguardrails.library.self_check...` in Colang 2.x resolves against COLANGPATH roots."""
    import os

    import nemoguardrails
    from nemoguardrails.rails.llm import config as cfgmod

    root = os.path.dirname(os.path.dirname(os.path.abspath(nemoguardrails.__file__)))
    if root not in cfgmod.colang_path_dirs:
        cfgmod.colang_path_dirs.append(root)


@contextlib.contextmanager
def _quiet(on=True):
    if not on:
        yield
        return
    lvl = logging.root.manager.disable
    logging.disable(logging.CRITICAL)
    try:
        with contextlib.redirect_stdout(io.StringIO()):
            yield
    finally:
        logging.disable(lvl)


def install_seams(clock):
    ctx = seams.SimContext(clock=clock)
    seams.install(ctx)
    return ctx
