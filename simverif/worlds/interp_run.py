"""Running a generated Colang 2 program under SimClient, with per-step invariant hooks
(C09 quiescence, C06 lifetimes) and the action life-cycle automaton."""
import re

from ..gen import colang2
from ..kernel import control, seams
from ..kernel.draws import Draws
from ..kernel.trace import Trace
from . import interp as I

GAP_GRID = [0.0, 0.001, 0.01, 0.05, 0.25, 1.0, 1.0, 4.9, 5.1, 30.0]
ACT_DELAY = [0.0, 0.001, 0.01, 0.25, 1.0, 6.0]
START_RE = re.compile(r"^Start(\w+Action)$")
STOP_RE = re.compile(r"^Stop(\w+Action)$")


class StepRecord:
    __slots__ = ("event", "out", "tag", "steps", "t")

    def __init__(self, event, out, tag, steps, t):
        self.event, self.out, self.tag, self.steps, self.t = event, out, tag, steps, t


class RunResult:
    def __init__(self):
        self.steps = []
        self.error = None  # (kind, exception)
        self.interp = None
        self.total_internal = 0
        self.choices = []
        self.sim_seconds = 0.0
        self.action_faults = {}
        self.error_t = 0.0


def program_text(sc):
    return sc["program_text"] if "program_text" in sc else colang2.render(sc["program"])


def run_program(sc, hooks=(), tr=None, on_build=None, stop_after=None):
    """sc keys: program | program_text, deliveries [event dicts], client {seed, faults:[kinds], overrides},
    tie_seed, gap_seed.  hooks: callables(result, record) invoked after every fully processed event."""
    res = RunResult()
    cd = Draws(sc.get("client", {}).get("seed", 0), sc.get("client", {}).get("overrides"))
    td = Draws(sc.get("tie_seed", 0), sc.get("tie_overrides"))
    enabled = set(sc.get("client", {}).get("faults", []))
    tie_no = {"n": 0}

    def chooser(site, k):
        tie_no["n"] += 1
        pick = td.index(k, "tie", tie_no["n"])
        res.choices.append((site, k, pick))
        return pick

    ctx = seams.SimContext(chooser=chooser)
    I.install_interp_seams(ctx)
    seams.reset_run_state(ctx)
    I.COUNTER.total = 0
    try:
        try:
            itp = I.Interp(program_text(sc))
        except control.SimControl:
            raise
        except Exception as e:
            res.error = ("load", e)
            return res
        res.interp = itp
        if on_build:
            on_build(itp)
        client = I.SimClient(itp, ctx)
        if sc.get("frozen_clock"):
            # reference twin of C11: the interpreter sees a clock that never advances, so nothing is ever old enough to be
            # discarded by the state clean-up (the event schedule itself still runs on the client's own time)
            ctx.set_clock(lambda: 0.0)
        res.client = client
        act_ord = {"n": 0}
        known_actions = {}

        def react(event, out, tag):
            # the UMIM side: react to Start/Stop action events of this step
            for e in out:
                m = START_RE.match(e.get("type", ""))
                if m and e.get("action_uid"):
                    act_ord["n"] += 1
                    k = act_ord["n"]
                    name = m.group(1)
                    uid = e["action_uid"]
                    known_actions[uid] = {"name": name, "finished_sent": False, "k": k}
                    mode = "normal"
                    if enabled:
                        mode = cd.weighted([("normal", 6)] + [(f, 1.5 * sc.get("client", {}).get("fault_bias", 1)) for f in sorted(enabled) if f in ("never", "dup", "early", "late", "no_started", "started_late")], "amode", k)
                    res.action_faults[mode] = res.action_faults.get(mode, 0) + 1
                    d1 = cd.choice(ACT_DELAY, "d1", k)
                    d2 = d1 + cd.choice(ACT_DELAY, "d2", k)
                    fin = {"type": name + "Finished", "action_uid": uid, "is_success": True}
                    if name == "UtteranceBotAction":
                        fin["final_script"] = e.get("script")
                    sta = {"type": name + "Started", "action_uid": uid}
                    if mode == "normal":
                        client.schedule(d1, sta, ("started", uid))
                        client.schedule(d2, fin, ("finished", uid))
                    elif mode == "never":
                        client.schedule(d1, sta, ("started", uid))
                    elif mode == "no_started":
                        client.schedule(d2, fin, ("finished", uid))
                    elif mode == "dup":
                        client.schedule(d1, sta, ("started", uid))
                        client.schedule(d2, fin, ("finished", uid))
                        client.schedule(d2 + cd.choice(ACT_DELAY, "d3", k), dict(fin), ("finished-dup", uid))
                    elif mode == "early":
                        client.schedule(d1, fin, ("finished-early", uid))
                        client.schedule(d2, sta, ("started-late", uid))
                    elif mode == "started_late":
                        # Started arrives long after the start (possibly after a Stop), and no Finished ever
                        client.schedule(d1 + 6.0, sta, ("started-late", uid))
                    elif mode == "late":
                        client.schedule(d1, sta, ("started", uid))
                        client.schedule(d2 + 30.0, fin, ("finished-late", uid))
                m = STOP_RE.match(e.get("type", ""))
                if m and e.get("action_uid") and e["action_uid"] in known_actions:
                    info = known_actions[e["action_uid"]]
                    if "stop_reacts" in enabled or not enabled:
                        k = info["k"]
                        fin = {"type": info["name"] + "Finished", "action_uid": e["action_uid"], "is_success": False}
                        client.schedule(cd.choice(ACT_DELAY, "ds", k), fin, ("finished-after-stop", e["action_uid"]))

        # schedule user events
        gd = Draws(sc.get("gap_seed", 0), sc.get("gap_overrides"))
        t = 0.0
        client.schedule(0.0, "START", ("start", None))
        for i, ev in enumerate(sc.get("deliveries", [])):
            t += gd.choice(GAP_GRID, "gap", i) if sc.get("gaps", True) else 0.01
            client.schedule(t, dict(ev), ("user", i))
        n = 0
        cap = sc.get("max_deliveries", 120)
        while client.q and n < cap:
            if stop_after is not None and n >= stop_after:
                break
            try:
                event, out, tag = client.step()
            except control.StepBudgetExceeded as e:
                res.error = ("budget", e)
                res.error_t = client.now
                res.ring = list(I.COUNTER.ring)
                break
            except control.SimControl:
                raise
            except Exception as e:
                res.error = ("exception", e)
                res.error_t = client.now
                break
            n += 1
            rec = StepRecord(event, out, tag, itp.steps_last, client.now)
            res.steps.append(rec)
            if tr is not None:
                tr.log("step", n, round(client.now, 6), _norm_event(event), [_norm_event(o) for o in out], itp.steps_last)
            react(event, out, tag)
            for h in hooks:
                h(res, rec)
        res.client = client
        res.sim_seconds = client.now
        res.total_internal = I.COUNTER.total
        return res
    finally:
        I.uninstall_interp_seams()


_DROP = ("uid", "event_created_at", "source_uid", "action_info_modality", "action_info_modality_policy")


def _norm_event(e):
    if not isinstance(e, dict):
        return str(e)
    return {k: v for k, v in e.items() if k not in _DROP}


# ------------------------------------------------------------------------------------------------
# C06: action life-cycle automaton + lifetime invariants
# ------------------------------------------------------------------------------------------------

class ActionAutomaton:
    """Driven by the events as the interpreter processed them (processing order)."""

    def __init__(self):
        self.state = {}  # uid -> dict(started=bool, stops=int, finished=bool, name)
        self.violations = []

    def feed(self, rec):
        # the delivered event is processed first, then the interpreter's outgoing events
        ev = rec.event
        if isinstance(ev, dict):
            t = ev.get("type", "")
            uid = ev.get("action_uid")
            if uid and t.endswith("ActionFinished") and uid in self.state:
                self.state[uid]["finished"] = True
        for e in rec.out:
            t = e.get("type", "")
            uid = e.get("action_uid")
            if not uid:
                continue
            m = START_RE.match(t)
            if m:
                st = self.state.get(uid)
                if st is not None and st["starts"] >= 1:
                    self.violations.append(("double-start", m.group(1), "action %s started twice" % uid[:8]))
                self.state.setdefault(uid, {"starts": 0, "stops": 0, "finished": False, "name": m.group(1)})
                self.state[uid]["starts"] += 1
                continue
            m = STOP_RE.match(t)
            if m:
                st = self.state.get(uid)
                if st is None or st["starts"] == 0:
                    self.violations.append(("stop-never-started", m.group(1), "Stop for action %s that was never started" % uid[:8]))
                    continue
                if st["finished"]:
                    self.violations.append(("stop-after-finished", m.group(1), "Stop for action %s after its Finished event was processed" % uid[:8]))
                if st["stops"] >= 1:
                    self.violations.append(("double-stop", m.group(1), "second Stop for action %s" % uid[:8]))
                st["stops"] += 1


def logical_children(state):
    """child uid -> logical parent uid, skipping ancestors with the same flow id as their activated
    child (the interpreter starts the next instance of an activated flow as a child of the previous
    finished instance)."""
    parents = {}
    for fs in state.flow_states.values():
        p = fs.parent_uid
        seen = 0
        while p and p in state.flow_states and state.flow_states[p].flow_id == fs.flow_id and fs.activated > 0 and seen < 50:
            p = state.flow_states[p].parent_uid
            seen += 1
        parents[fs.uid] = p
    return parents


def check_lifetimes(state, automaton):
    """I1 + I3 of DESIGN C06 on a state after an event was fully processed."""
    import nemoguardrails.colang.v2_x.runtime.statemachine as sm

    bad = []
    parents = logical_children(state)
    fss = state.flow_states
    listening = {u for u, f in fss.items() if sm.is_listening_flow(f)}
    running = {u for u, f in fss.items() if sm.is_active_flow(f)}

    # I1 as a reachability statement: a listening flow is *supported* if its logical parent is a supported flow that has
    # not ended, or if it is an activated instance that some other supported, not-ended flow still has registered as
    # activated child (same flow id; the interpreter registers the reference instance with every activator).  main is
    # supported by definition.  Whatever listens without support was started (transitively) only by flows that ended.
    # (The first formulation walked up from each done flow and treated every flow below it as unsupported; an activated
    # instance that hangs below the done flow but is ALSO activated by a flow outside, e.g. main, was wrongly discounted
    # as a supporter - a false alarm seen once in 200 000 thorough runs.)
    not_done = {u for u, f in fss.items() if not sm._is_done_flow(f)}
    supported = {u for u in not_done if fss[u].flow_id == "main" or parents.get(u) is None or parents.get(u) not in fss}
    changed = True
    while changed:
        changed = False
        for u in not_done - supported:
            f = fss[u]
            p = parents.get(u)
            ok = p in supported and p in not_done
            if not ok and f.activated > 0:
                for su in supported:
                    if su == u or su not in not_done:
                        continue
                    for cu in fss[su].child_flow_uids:
                        ch = fss.get(cu)
                        if ch is not None and ch.flow_id == f.flow_id and ch.activated > 0:
                            ok = True
                            break
                    if ok:
                        break
            if ok:
                supported.add(u)
                changed = True
    for cu in sorted(listening - supported):
        c = fss[cu]
        # name the nearest ended logical ancestor
        node, anc, hops = parents.get(cu), None, 0
        while node and node in fss and hops < 60:
            if sm._is_done_flow(fss[node]):
                anc = fss[node]
                break
            node = parents.get(node)
            hops += 1
        if anc is None:
            continue
        bad.append(("orphan-flow", "%s<-%s" % (anc.flow_id, c.flow_id), "flow %s (%s) still listening although its ancestor %s is %s" % (c.flow_id, c.status.name, anc.flow_id, anc.status.name)))
    # I3: unfinished, unstopped, started actions must be listed by a still-listening flow
    owners = {}
    for u in listening:
        for au in fss[u].action_uids:
            owners.setdefault(au, []).append(u)
    for au, st in automaton.state.items():
        if st["starts"] >= 1 and not st["finished"] and st["stops"] == 0:
            act = state.actions.get(au)
            if act is None or getattr(act, "flow_uid", None) is None:
                continue  # raw send StartXAction(...) is an event, not an owned action
            if au not in owners:
                bad.append(("orphan-action", st["name"], "action %s (%s) is started, not finished, not stopped, and no listening flow lists it" % (au[:8], st["name"])))
    return bad


WAITING_KINDS = ("match", "match_ref", "await_flow", "await_action", "start_flow", "start_action", "activate_flow", "when", "group", "while", "if")


def check_activation_liveness(state, program):
    """I4 (restart half): "an activated flow is started again whenever its instance ends, for as long as a flow that
    activated it is running".  For every running flow A whose body begins with `activate g` (the generator puts
    activations at the head of a body, so a flow that waits further down has performed them) there is a listening
    instance of g - or, for a g without any waiting statement ("finishes without ever waiting: runs once and stays
    activated"), an instance that is still marked activated.  Returns [(kind, who, detail)]."""
    import nemoguardrails.colang.v2_x.runtime.statemachine as sm

    flows = {f["name"]: f for f in program.get("flows", [])}
    bad = []
    by_id = {}
    for f in state.flow_states.values():
        by_id.setdefault(f.flow_id, []).append(f)
    for a in state.flow_states.values():
        if a.status.name != "STARTED" or a.flow_id not in flows:
            continue
        body = flows[a.flow_id]["body"]
        lead = []
        for st in body:
            if st["k"] != "activate_flow":
                break
            lead.append(st["flow"])
        if not lead or len(lead) == len(body):
            continue  # nothing activated, or the flow consists of activations only (no later wait proves they were done)
        # A must be waiting past its head: its active heads sit beyond the expansion of the leading activations; approximated
        # by "A is STARTED and none of the g is still being started" (no instance in WAITING/STARTING state)
        for g in lead:
            insts = by_id.get(g, [])
            if any(i.status.name in ("WAITING", "STARTING") for i in insts):
                continue
            gbody = flows.get(g, {}).get("body", [])
            instant = not any(s["k"] in WAITING_KINDS or s["k"] in ("abort",) for s in _walk(gbody))
            if any(sm.is_listening_flow(i) for i in insts):
                continue
            if instant and any(i.activated > 0 for i in insts):
                continue
            bad.append(("activation-not-alive", "%s->%s" % (a.flow_id, g), "flow %s (%s) is running and has activated %s, but no instance of %s is listening (instances: %s)"
                        % (a.flow_id, a.status.name, g, g, [(i.status.name, i.activated) for i in insts])))
    return bad


def _walk(body):
    for s in body:
        yield s
        if s["k"] == "when":
            for c in s["cases"]:
                yield from _walk(c["body"])
            yield from _walk(s.get("else") or [])
        elif s["k"] == "if":
            yield from _walk(s["then"])
            yield from _walk(s.get("else") or [])
        elif s["k"] == "while":
            yield from _walk(s["body"])


def _owed_by_other(state, c, done_uid, parents):
    """An activated instance may outlive one activator if another running flow activated the same
    flow (+params): look for a listening flow, not below the done flow, that has an activated child
    of the same flow id, or that is itself a running activator registered for it."""
    import nemoguardrails.colang.v2_x.runtime.statemachine as sm

    for u, f in state.flow_states.items():
        if u == done_uid or not sm.is_listening_flow(f):
            continue
        # is f below the done flow? then it does not count
        p = parents.get(u)
        below = False
        hops = 0
        while p and hops < 60:
            if p == done_uid:
                below = True
                break
            p = parents.get(p)
            hops += 1
        if below:
            continue
        for cu in f.child_flow_uids:
            ch = state.flow_states.get(cu)
            if ch is not None and ch.flow_id == c.flow_id and ch.activated > 0:
                return True
    return False
