"""Driving conversations through a RailsWorld and the seam-level oracles for C01 / C02 / C03."""
import asyncio
import re

from ..kernel import control, seams
from ..kernel.loop import run_sim
from ..kernel.trace import Trace
from . import rails as R
from ..gen import convo

# an LLM-made text: marker, turn token, and optionally a free-form tail between tildes (C02 varies it: punctuation, apostrophes, ...)
LLM_TEXT_RE = re.compile(r"LLM\[[a-z]#c\d+t\d+#\] generated answer(?: ~[^~]*~)?")
BOT_TASKS = {"general", "generate_bot_message", "generate_intent_steps_message"}


class TurnRecord:
    def __init__(self, conv, t, tok, text):
        self.conv, self.t, self.tok, self.text = conv, t, tok, text
        self.events = []  # history slice of this request
        self.status = None
        self.reply_role = None
        self.reply = None  # content (str) or exception event (dict)
        self.raw = None
        self.exc = None

    def brief(self):
        return {"turn": self.t, "tok": self.tok, "status": self.status, "role": self.reply_role, "reply": self.reply if isinstance(self.reply, str) else repr(self.reply)[:120],
                "seam": [(e["kind"], e["name"], e.get("verdict")) for e in self.events if e["kind"] in ("rail", "dialog", "llm")]}


def shipped_text(prompt, side):
    key = "CHECKIN " if side == "in" else "CHECKOUT "
    i = prompt.rfind(key)
    if i < 0:
        return None
    rest = prompt[i + len(key):]
    j = rest.find("\nShould it be blocked")
    return rest[:j] if j >= 0 else rest


def normalise_events(spec, events):
    """Seam history of a turn -> list of (kind, name, text, verdict, idx, faulted) with shipped rails
    (LLM self-check calls) mapped onto rail invocations."""
    out = []
    resp = R.Responder(spec)
    for idx, e in enumerate(events):
        if e["kind"] == "rail":
            out.append({"kind": "rail", "rail": e["name"], "text": e.get("text"), "verdict": e.get("verdict"), "idx": idx, "faulted": e.get("faulted", False)})
        elif e["kind"] == "shipped":
            if e.get("faulted"):
                out.append({"kind": "rail", "rail": e["name"], "text": e.get("text"), "verdict": None, "idx": idx, "faulted": True})
        elif e["kind"] == "llm" and e["name"] in ("self_check_input", "self_check_output"):
            side = "in" if e["name"] == "self_check_input" else "out"
            rail = resp._shipped_rail(side)
            text = shipped_text(e.get("text") or "", side)
            out.append({"kind": "rail", "rail": rail, "text": text, "verdict": resp.verdict(rail, R.last_tok(text)), "idx": idx, "faulted": False})
        elif e["kind"] == "llm":
            out.append({"kind": "gen", "task": e["name"], "prompt": e.get("text") or "", "idx": idx, "n": e.get("n")})
        elif e["kind"] == "dialog":
            out.append({"kind": "dialog", "name": e["name"], "idx": idx, "faulted": e.get("faulted", False)})
        elif e["kind"] == "retrieval":
            out.append({"kind": "retrieval", "name": e["name"], "idx": idx, "faulted": e.get("faulted", False)})
    return out


def eff_verdict(spec, rail, tok):
    side, i = rail[:-1] if rail[-1].isdigit() else rail, int(rail[-1])
    side = "in" if rail.startswith("in") else "out"
    kind = spec["%s_rails" % side][i]["kind"]
    v = spec.get("verdicts", {}).get(rail, {}).get(tok or "", "allow")
    if kind == "rewrite_assign" and v == "block":
        v = "rewrite"
    if kind == "shipped" and v == "rewrite":
        v = "allow"
    if spec.get("colang", "1.0") != "1.0" and v == "rewrite":
        v = "allow"
    return v


def expected_chain(spec, side, text):
    """Reference pipeline for one text through the rails of a side.
    Returns (sequence [(rail, text_seen)], blocked_by or None, final_text)."""
    seq = []
    cur = text
    tok = R.last_tok(text)
    for i, r in enumerate(spec["%s_rails" % side]):
        rail = "%s%d" % (side, i)
        seq.append((rail, cur))
        v = eff_verdict(spec, rail, tok)
        if v == "block":
            return seq, rail, cur
        if v == "rewrite":
            cur = R.rewritten(rail, cur)
    return seq, None, cur


def reply_is_block_of(spec, rec, rail):
    # Colang 2.x: rail exceptions are returned as events next to the (empty) assistant content
    for ev in (rec.raw or {}).get("events", []) or []:
        if isinstance(ev, dict) and str(ev.get("type", "")).endswith("RailException") and ev.get("message") == _exc_text(spec, rail):
            return True
    if rec.reply_role == "exception":
        return isinstance(rec.reply, dict) and rec.reply.get("message") == _exc_text(spec, rail)
    if isinstance(rec.reply, str):
        return _refusal_text(spec, rail) in rec.reply
    return False


def _is_shipped(spec, rail):
    side = "in" if rail.startswith("in") else "out"
    return spec["%s_rails" % side][int(rail[-1])]["kind"] == "shipped"


def _refusal_text(spec, rail):
    if _is_shipped(spec, rail):
        return "I'm sorry, I can't respond to that."
    return R.refusal(rail)


def _exc_text(spec, rail):
    if _is_shipped(spec, rail):
        side = "input" if rail.startswith("in") else "output"
        return "%s not allowed. The %s was blocked by the 'self check %s' flow." % (side.capitalize(), side, side)
    return R.exc_message(rail)


# ------------------------------------------------------------------------------------------------
# oracles
# ------------------------------------------------------------------------------------------------

def check_c01(spec, rec, out, cfgclass, generation_clauses=False, text_seen_before=False):
    """Input rails gate every user message (clauses a-d of DESIGN C01)."""
    ev = normalise_events(spec, rec.events)
    in_inv = [e for e in ev if e["kind"] == "rail" and e["rail"].startswith("in")]
    gens = [e for e in ev if e["kind"] == "gen"]
    dialogs = [e for e in ev if e["kind"] == "dialog"]
    if not spec["in_rails"]:
        return
    exp_seq, blocked_by, final = expected_chain(spec, "in", rec.text)
    got_seq = [(e["rail"], e["text"]) for e in in_inv]
    v1 = spec["colang"] == "1.0"
    if got_seq != exp_seq:
        # classify: missing / extra / wrong order / wrong text
        got_ids, exp_ids = [g[0] for g in got_seq], [e[0] for e in exp_seq]
        if got_ids != exp_ids:
            kind = "missing" if len(got_ids) < len(exp_ids) and got_ids == exp_ids[:len(got_ids)] else ("extra-after-block" if blocked_by and got_ids[:len(exp_ids)] == exp_ids else "order")
            out.violate("input-rails-sequence", "%s:%s" % (cfgclass, kind),
                        "turn %d %s: input rails invoked %r, the configured pipeline demands %r (blocked_by=%s)" % (rec.t, rec.tok, got_ids, exp_ids, blocked_by))
        else:
            out.violate("input-rails-text", "%s:rail-saw-stale-text" % cfgclass,
                        "turn %d %s: input rails saw %r, expected %r (a rewritten message must reach later rails rewritten)" % (rec.t, rec.tok, got_seq, exp_seq))
        return
    last_in = max((e["idx"] for e in in_inv), default=-1)
    early = [e for e in gens + dialogs if e["idx"] < last_in]
    if early:
        e = early[0]
        out.violate("generation-before-input-rails", "%s:%s" % (cfgclass, e.get("task") or "dialog:" + e.get("name", "")),
                    "turn %d %s: %s ran before input rail %s finished" % (rec.t, rec.tok, e.get("task") or e.get("name"), in_inv[-1]["rail"]))
    if blocked_by:
        out.probe("input_block")
        if gens or dialogs:
            out.violate("generation-after-input-block", "%s:%s" % (cfgclass, (gens + dialogs)[0].get("task") or "dialog"),
                        "turn %d %s: input rail %s rejected the message but %r still ran" % (rec.t, rec.tok, blocked_by, [(g.get("task") or g.get("name")) for g in gens + dialogs]))
        if rec.status == "ok" and not reply_is_block_of(spec, rec, blocked_by):
            out.violate("input-block-reply", "%s:%s" % (cfgclass, "exception" if spec.get("exceptions") else "refusal"),
                        "turn %d %s: input rail %s rejected the message but the reply is %r" % (rec.t, rec.tok, blocked_by, rec.reply))
    elif v1 and final != rec.text:
        out.probe("input_rewrite")
        secret = re.search(r"SECRET\d+_\d+", rec.text)
        # index of the rewriting rail invocation
        first_rw = None
        cur = rec.text
        for e in in_inv:
            if e["text"] != rec.text:
                break
            first_rw = e["idx"]
        for g in ev:
            # (a turn that repeats an earlier turn's text word for word: the history part of a prompt legitimately shows the earlier
            # message as it was sent - the clause cannot tell the two apart and is not applied)
            if g["kind"] == "gen" and secret and secret.group(0) in g["prompt"] and g["idx"] > (first_rw or -1) and not text_seen_before:
                out.violate("rewrite-leak", "%s:%s" % (cfgclass, g["task"]),
                            "turn %d %s: the input was rewritten to %r but the %s prompt still contains the original text (%s)" % (rec.t, rec.tok, final, g["task"], secret.group(0)))
                break
    # (e) what the rails approved is what generation works on: the first generation prompt of the turn carries the approved text
    if generation_clauses and not blocked_by and gens:
        g0 = min(gens, key=lambda g: g["idx"])
        if rec.text.startswith("$"):
            out.probe("user_text_begins_with_variable_syntax")
        if final and final not in (g0.get("prompt") or ""):
            out.violate("approved-text-not-generated-from", "%s:%s" % (cfgclass, g0.get("task")),
                        "turn %d %s: the input rails approved %r but the first generation prompt (%s) does not contain it: %r" % (rec.t, rec.tok, final, g0.get("task"), (g0.get("prompt") or "")[-300:]))
    # (f) an approved message is generated from: in the modes that answer through the LLM a turn that no rail rejected makes an LLM call
    if generation_clauses and not blocked_by and not gens and v1 and spec.get("mode") in ("dialog", "single_call", "multistep", "passthrough", "passthrough_dialog") and rec.status == "ok" \
            and not any(e.get("faulted") for e in ev):
        out.violate("approved-text-not-generated-from", "%s:no-llm-call" % cfgclass,
                    "turn %d %s: the input rails approved %r but no dialog/generation LLM call was made for the turn; reply %r" % (rec.t, rec.tok, final, rec.reply))
    if rec.t > 0:
        out.probe("later_turn_checked")


def check_c02(spec, rec, out, cfgclass, earlier):
    """Output rails gate every LLM-made bot message, in every turn."""
    if not spec["out_rails"]:
        return
    ev = normalise_events(spec, rec.events)
    out_inv = [e for e in ev if e["kind"] == "rail" and e["rail"].startswith("out")]
    reply_text = rec.reply if isinstance(rec.reply, str) else ""
    if rec.reply_role == "exception":
        reply_text = ""
    after = ("after-" + "+".join(sorted(set(earlier)))) if earlier else "first"
    # chains: group invocations by the id token of the text they saw (one LLM bot text per turn token);
    # texts without an LLM marker (refusals, predefined messages) are not the property's subject.
    groups = {}
    for e in out_inv:
        groups.setdefault(R.last_tok(e["text"] or ""), []).append(e)
    for tk, inv in groups.items():
        orig = inv[0]["text"] or ""
        if tk is None or not LLM_TEXT_RE.search(orig):
            continue
        exp_seq, blocked_by, final = expected_chain(spec, "out", orig)
        got = [(e["rail"], e["text"]) for e in inv]
        # C02 does not forbid later rails from still running after a rejection (C01 does, for input):
        # the expected chain must be a prefix; anything beyond it is only allowed after a block.
        if got[:len(exp_seq)] != exp_seq or (len(got) > len(exp_seq) and not blocked_by):
            out.violate("output-rails-sequence", "%s:%s" % (cfgclass, after),
                        "turn %d %s: output rails invoked %r for bot text %r, the configured pipeline demands %r" % (rec.t, rec.tok, got, orig, exp_seq))
            return
        blockers = [e["rail"] for e in inv if e.get("verdict") == "block"]
        if blocked_by:
            out.probe("output_block")
            for (_r, txt) in got:
                if txt and txt in reply_text and LLM_TEXT_RE.search(txt):
                    out.violate("blocked-text-returned", "%s:%s" % (cfgclass, after),
                                "turn %d %s: output rail %s rejected %r but the reply is %r" % (rec.t, rec.tok, blocked_by, txt, rec.reply))
                    break
            if rec.status == "ok" and not any(reply_is_block_of(spec, rec, b) for b in blockers):
                out.violate("output-block-reply", "%s:%s" % (cfgclass, "exception" if spec.get("exceptions") else "refusal"),
                            "turn %d %s: output rail %s rejected %r but the reply %r carries neither a rejecting rail's refusal nor its exception" % (rec.t, rec.tok, blocked_by, orig, rec.reply))
        elif final != orig:
            out.probe("output_rewrite")
            if rec.reply_role == "assistant":
                if orig in reply_text:
                    out.violate("unrewritten-text-returned", "%s:%s" % (cfgclass, after),
                                "turn %d %s: an output rail rewrote %r to %r but the reply is %r" % (rec.t, rec.tok, orig, final, rec.reply))
                elif final not in reply_text:
                    out.violate("rewritten-text-missing", "%s:%s" % (cfgclass, after),
                                "turn %d %s: an output rail rewrote %r to %r but the reply is %r" % (rec.t, rec.tok, orig, final, rec.reply))
    # gate: any LLM-made text in the reply must have passed every output rail
    for m in LLM_TEXT_RE.finditer(reply_text):
        txt = m.group(0)
        if txt.endswith("~"):
            out.probe("llm_text_with_tail_in_reply")
        if "\n" in txt:
            out.probe("llm_text_multiline_in_reply")
        exp_seq, blocked_by, final = expected_chain(spec, "out", txt)
        full = [e for e in out_inv if e["text"] == txt]
        if len(full) == 0 or blocked_by is not None:
            out.violate("unchecked-llm-text", "%s:%s" % (cfgclass, after),
                        "turn %d %s: the reply %r contains LLM text %r that %s" % (rec.t, rec.tok, rec.reply, txt,
                                                                                   "was passed to no output rail" if not full else "output rail %s rejects" % blocked_by))
            break
    if rec.t > 0 and earlier:
        out.probe("checked_after_" + "+".join(sorted(set(earlier))))


def turn_outcome_kinds(spec, rec):
    """What happened in this turn that later turns must survive (for C02's 'after' classes)."""
    kinds = []
    ev = normalise_events(spec, rec.events)
    for e in ev:
        if e["kind"] == "rail":
            side = "input" if e["rail"].startswith("in") else "output"
            if e.get("faulted"):
                kinds.append(side + "-failure")
            elif e["verdict"] == "block":
                kinds.append(side + "-block")
            elif e["verdict"] == "rewrite":
                kinds.append(side + "-rewrite")
        if e["kind"] == "dialog" and e.get("faulted"):
            kinds.append("dialog-failure")
    return kinds


# ------------------------------------------------------------------------------------------------
# running
# ------------------------------------------------------------------------------------------------

def run_conversations(spec, fault_at=None, tr=None, max_iterations=400000, options_fn=None, state_mode="json", idle_fn=None, fresh_instance=False):
    """Sequentially serve spec['convs'] (each on the same world) and return (world, records).

    state_mode (Colang 2.x): "json" = the caller hands back the serialised state that generate_async returned
    (what every real caller does); "live" = the caller hands back the live State object the runtime produced, so
    the conversation never passes through state_to_json/json_to_state (C11's reference twin).
    idle_fn(c, t) -> virtual seconds the conversation rests before turn t (ageing fault).
    fresh_instance: every turn after the first is served by a NEW LLMRails instance built from the same configuration (the serving
    process was restarted between the turns; only what the caller holds - the returned state - survives)."""
    holder = {}
    llm_lat, act_lat = convo.latency_fns(spec)

    def clock():
        lp = holder.get("loop")
        return lp.time() if lp is not None else 0.0

    ctx = seams.SimContext(clock=clock)
    seams.install(ctx)
    seams.reset_run_state(ctx)
    try:
        world = R.RailsWorld(spec, loop_clock=clock, latency=llm_lat, action_latency=act_lat)
        if fault_at:
            world.fault_at = dict(fault_at)
        records = []
        live = {}
        if state_mode == "live" and spec["colang"] != "1.0":
            rt = world.app.runtime
            orig_pe = rt.process_events

            async def capturing_process_events(*a, **kw):
                r = await orig_pe(*a, **kw)
                live["state"] = r[1]
                return r

            rt.process_events = capturing_process_events

        async def main(loop):
            holder["loop"] = loop
            for c, conv in enumerate(spec["convs"]):
                msgs = []
                state = None
                for t, turn in enumerate(conv["turns"]):
                    if idle_fn is not None:
                        idle = idle_fn(c, t)
                        if idle:
                            await asyncio.sleep(idle)
                    if fresh_instance and t > 0:
                        world.rebuild_app()
                    rec = TurnRecord(c, t, turn["tok"], turn["text"])
                    h0 = len(world.history)
                    opts = options_fn(c, t) if options_fn else None
                    if spec["colang"] == "1.0" and spec.get("v1_state_continuity"):
                        # the conversation is continued through the state object the previous call returned (only the new message is sent)
                        st, res = await world.generate("c%d" % c, messages=[{"role": "user", "content": turn["text"]}], options=opts, state=state if state is not None else {})
                    elif spec["colang"] == "1.0":
                        msgs.append({"role": "user", "content": turn["text"]})
                        st, res = await world.generate("c%d" % c, messages=msgs, options=opts)
                    else:
                        st, res = await world.generate("c%d" % c, messages=[{"role": "user", "content": turn["text"]}], state=state if state is not None else {}, options=opts)
                    rec.events = [e for e in world.history[h0:] if e["kind"] != "request"]
                    rec.n_actions = (world.action_calls,)
                    rec.status = st
                    if st == "ok":
                        msg = res
                        if hasattr(res, "response"):
                            state = getattr(res, "state", None) if (spec["colang"] != "1.0" or spec.get("v1_state_continuity")) else None
                            if state_mode == "live" and state is not None:
                                state = live.get("state")
                            msg = res.response[0] if isinstance(res.response, list) else {"role": "assistant", "content": res.response}
                        rec.raw = msg
                        rec.reply_role = msg.get("role")
                        rec.reply = msg.get("content")
                        if spec["colang"] == "1.0":
                            if msg.get("role") == "assistant":
                                msgs.append({"role": "assistant", "content": msg.get("content")})
                    else:
                        rec.exc = res
                        rec.reply = None
                        if spec["colang"] == "1.0":
                            msgs.pop()
                    records.append(rec)
                    if tr is not None:
                        tr.log("turn", c, t, st, rec.reply_role, rec.reply if isinstance(rec.reply, (str, type(None))) else repr(sorted(rec.reply.items()) if isinstance(rec.reply, dict) else rec.reply),
                               [(e["kind"], e["name"], e.get("verdict"), e.get("faulted"), e.get("t")) for e in rec.events], repr(rec.exc) if rec.exc else None)
            return loop.time()

        t_end, loop = run_sim(main, start_time=1000.0, max_iterations=max_iterations)
        world.sim_seconds = t_end - 1000.0
        return world, records
    finally:
        seams.uninstall()
