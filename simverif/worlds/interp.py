"""INTERP world: the Colang 2 state machine as an event-driven node.

Direct driver: ``run_to_completion(state, event)`` (synchronous) under a discrete-event queue owned
by the simulated UMIM client (SimClient).  Seams: uuid, tie-breaks (statemachine.random), clock
(datetime.now) and a counting ``deque`` that turns non-termination into StepBudgetExceeded.
"""
import collections
import hashlib
import heapq

from ..kernel import control, seams

_real_deque = collections.deque


class StepCounter:
    def __init__(self):
        self.steps = 0
        self.budget = None
        self.ring = _real_deque(maxlen=400)
        self.total = 0


COUNTER = StepCounter()


class CountingDeque(_real_deque):
    """Stands in for statemachine.deque: counts processed internal events (popleft)."""

    def popleft(self):
        ev = super().popleft()
        c = COUNTER
        c.steps += 1
        c.total += 1
        c.ring.append(_ev_brief(ev))
        if c.budget is not None and c.steps > c.budget:
            raise control.StepBudgetExceeded("more than %d internal events while processing one external event" % c.budget)
        return ev


def _ev_brief(ev):
    name = getattr(ev, "name", None)
    args = getattr(ev, "arguments", None) or {}
    return (name, args.get("flow_id"), args.get("activated"))


_sm_installed = []


def install_interp_seams(ctx):
    """uuid + tie-break + clock seams plus the counting deque."""
    import nemoguardrails.colang.v2_x.runtime.statemachine as sm

    seams.install(ctx, v1=False, v2=True, rails=False)
    if not hasattr(sm, "deque"):
        raise control.HarnessError("seam statemachine.deque does not exist any more")
    _sm_installed.append((sm, "deque", sm.deque))
    sm.deque = CountingDeque


def uninstall_interp_seams():
    while _sm_installed:
        mod, attr, old = _sm_installed.pop()
        setattr(mod, attr, old)
    seams.uninstall()


def build_state(program):
    from nemoguardrails.colang import parse_colang_file
    from nemoguardrails.colang.v2_x.runtime.flows import State
    from nemoguardrails.colang.v2_x.runtime.runtime import create_flow_configs_from_flow_list
    from nemoguardrails.colang.v2_x.runtime.statemachine import initialize_state

    flows = parse_colang_file(filename="sim.co", content=program, include_source_mapping=False, version="2.x")["flows"]
    cfg = create_flow_configs_from_flow_list(flows)
    state = State(flow_states=[], flow_configs=cfg)
    initialize_state(state)
    return state


def n_elements(state):
    return sum(len(fc.elements) for fc in state.flow_configs.values())


class Interp:
    """One conversation state driven event by event."""

    def __init__(self, program, budget_base=300, budget_per_element=30):
        from nemoguardrails.colang.v2_x.runtime.flows import InternalEvent

        self.program = program
        self.state = build_state(program)
        self.budget = budget_base + budget_per_element * n_elements(self.state)
        self.InternalEvent = InternalEvent
        self.processed = []  # (event brief, outgoing list)
        self.steps_last = 0
        self.max_steps = 0
        self.started = False

    def start(self):
        """Start of story as RuntimeV2_x.process_events does it: module-level ``@active`` flows are started
        (activated, as children of main) before the main flow itself."""
        from nemoguardrails.utils import new_readable_uuid

        self.started = True
        main_flow_state = self.state.flow_id_states["main"][-1]
        idx = 0
        pre = []
        for flow_config in reversed(list(self.state.flow_configs.values())):
            if "active" in flow_config.decorators:
                pre.insert(0, self.InternalEvent(name="StartFlow", arguments={
                    "flow_id": flow_config.id,
                    "source_flow_instance_uid": main_flow_state.uid,
                    "flow_instance_uid": new_readable_uuid(flow_config.id),
                    "flow_hierarchy_position": "0.0.%d" % idx,
                    "source_head_uid": list(main_flow_state.heads.values())[0].uid,
                    "activated": True,
                }))
                idx += 1
        out = []
        for ev in pre:
            out += self.deliver(ev, _raw=True)
        out += self.deliver(self.InternalEvent(name="StartFlow", arguments={"flow_id": "main"}), _raw=True)
        return out

    def deliver(self, event, budget_factor=1, _raw=False):
        from nemoguardrails.colang.v2_x.runtime.statemachine import run_to_completion

        # like process_events: when the main flow has finished and waits to be started again, the story is
        # started again before the next external event is processed
        if not _raw and self.started and self.state.main_flow_state is not None and self.state.main_flow_state.status.name == "WAITING":
            pre = self.start()
            out = self.deliver(event, budget_factor, _raw=True)
            self.processed[-1] = (self.processed[-1][0], pre + out)
            return pre + out

        COUNTER.steps = 0
        COUNTER.budget = self.budget * budget_factor
        COUNTER.ring.clear()
        try:
            self.state = run_to_completion(self.state, event)
        finally:
            self.steps_last = COUNTER.steps
            self.max_steps = max(self.max_steps, COUNTER.steps)
            COUNTER.budget = None
        out = [dict(e) for e in self.state.outgoing_events]
        self.processed.append((event if isinstance(event, dict) else {"type": event.name, **(event.arguments or {})}, out))
        return out


# ------------------------------------------------------------------------------------------------
# C09: quiescence and exact dispatch index, recomputed from scratch
# ------------------------------------------------------------------------------------------------

def check_quiescence(state):
    """Returns a list of (clause, detail) violations of C09 on a state after run_to_completion."""
    import nemoguardrails.colang.v2_x.runtime.statemachine as sm
    from nemoguardrails.colang.v2_x.lang.colang_ast import SpecOp
    from nemoguardrails.colang.v2_x.runtime.flows import FlowHeadStatus

    bad = []
    if len(state.internal_events) != 0:
        bad.append(("pending-internal-events", "%d internal events left" % len(state.internal_events)))
    scan = {}
    for fs in state.flow_states.values():
        listening = sm.is_listening_flow(fs)
        if sm._is_done_flow(fs):
            live = [h for h in fs.heads.values() if h.status != FlowHeadStatus.INACTIVE]
            if live:
                bad.append(("done-flow-holds-position", "%s (%s) still has %d head(s)" % (fs.flow_id, fs.status.name, len(live))))
            continue
        if not listening:
            bad.append(("flow-left-stopping", "%s is %s after the event was processed" % (fs.flow_id, fs.status.name)))
            continue
        fc = state.flow_configs[fs.flow_id]
        for h in fs.heads.values():
            if h.status == FlowHeadStatus.MERGING:
                bad.append(("head-left-merging", "%s head at %d" % (fs.flow_id, h.position)))
            if h.status == FlowHeadStatus.INACTIVE:
                continue
            if h.position < 0 or h.position >= len(fc.elements):
                bad.append(("head-out-of-range", "%s head at %d of %d" % (fs.flow_id, h.position, len(fc.elements))))
                continue
            el = fc.elements[h.position]
            tname = type(el).__name__
            if isinstance(el, SpecOp) and el.op == "match":
                name = sm.get_event_name_from_element(state, fs, el)
                scan.setdefault(name, []).append((fs.uid, h.uid))
            elif tname == "WaitForHeads":
                pass
            else:
                bad.append(("head-on-executable-statement", "%s head parked on %s%s at %d" % (fs.flow_id, tname, ("(%s)" % el.op) if isinstance(el, SpecOp) else "", h.position)))
        for uid in fs.action_uids:
            if uid not in state.actions:
                bad.append(("dangling-action", "%s references action %s" % (fs.flow_id, uid[:8])))
        for uid in fs.child_flow_uids:
            if uid not in state.flow_states:
                bad.append(("dangling-child", "%s references child %s" % (fs.flow_id, uid[:24])))
        if fs.parent_uid and fs.parent_uid not in state.flow_states:
            bad.append(("dangling-parent", "%s references parent %s" % (fs.flow_id, fs.parent_uid[:24])))
    # dispatch index == from-scratch scan (multiset per event name), reverse map exact inverse
    idx = {k: sorted(v) for k, v in state.event_matching_heads.items() if v}
    want = {k: sorted(v) for k, v in scan.items() if v}
    if idx != want:
        missing = {k: [x for x in want.get(k, []) if x not in idx.get(k, [])] for k in want}
        stale = {k: [x for x in idx.get(k, []) if x not in want.get(k, [])] for k in idx}
        missing = {k: v for k, v in missing.items() if v}
        stale = {k: v for k, v in stale.items() if v}
        dup = {k: len(v) - len(set(v)) for k, v in idx.items() if len(v) != len(set(v))}
        kind = "missed-waiting-head" if missing else ("stale-entry" if stale else "duplicate-entry")
        bad.append(("dispatch-index-" + kind, "missing=%s stale=%s dup=%s" % (_names(state, missing), _names(state, stale), dup)))
    rev = {}
    for name, lst in state.event_matching_heads.items():
        for (fu, hu) in lst:
            rev[fu + hu] = name
    if rev != dict(state.event_matching_heads_reverse_map):
        bad.append(("dispatch-reverse-map", "reverse map is not the inverse of the index"))
    by_id = {}
    for fs in state.flow_states.values():
        by_id.setdefault(fs.flow_id, []).append(fs.uid)
    have = {k: sorted(f.uid for f in v) for k, v in state.flow_id_states.items() if v}
    if have != {k: sorted(v) for k, v in by_id.items()}:
        bad.append(("flow-id-index", "flow_id_states does not index exactly flow_states"))
    return bad


def _names(state, d):
    out = {}
    for k, lst in d.items():
        out[k] = [state.flow_states[fu].flow_id if fu in state.flow_states else "?" for (fu, _h) in lst]
    return out


def state_signature(state):
    items = []
    for fs in state.flow_states.values():
        items.append((fs.flow_id, fs.status.name, tuple(sorted((h.position, h.status.name) for h in fs.heads.values())), fs.activated))
    items.sort()
    return hashlib.blake2b(repr(items).encode(), digest_size=8).hexdigest()


# ------------------------------------------------------------------------------------------------
# SimClient: the UMIM side (action server + user), a discrete-event queue on virtual time
# ------------------------------------------------------------------------------------------------

class SimClient:
    """Delivers external events to an Interp in virtual-time order.

    ``policy(action_start_event, k)`` -> list of (delay, kind) reactions, kind in
    {"Started", "Finished", "FinishedDup", "FinishedEarly"}; default: Started then Finished.
    """

    def __init__(self, interp, ctx, on_step=None):
        self.interp = interp
        self.ctx = ctx  # seams.SimContext (clock)
        self.now_us = 0  # integer microseconds: shifting all deadlines never reorders them
        self.q = []
        self.seq = 0
        self.on_step = on_step
        self.delivered = 0
        self.action_starts = {}
        ctx.set_clock(lambda: self.now_us / 1e6)

    @property
    def now(self):
        return self.now_us / 1e6

    def schedule(self, delay, event, tag=None):
        self.seq += 1
        heapq.heappush(self.q, (self.now_us + int(round(delay * 1e6)), self.seq, event, tag))

    def idle(self, delta):
        """clock_jump fault: nothing happens for `delta` seconds; everything scheduled shifts with it."""
        d = int(round(delta * 1e6))
        self.now_us += d
        self.q = [(t + d, s, e, tag) for (t, s, e, tag) in self.q]
        heapq.heapify(self.q)

    def step(self):
        """Deliver the next event; returns (event, outgoing, tag) or None."""
        if not self.q:
            return None
        t, _s, event, tag = heapq.heappop(self.q)
        if t > self.now_us:
            self.now_us = t
        out = self.interp.deliver(event) if event != "START" else self.interp.start()
        self.delivered += 1
        if self.on_step:
            self.on_step(event, out, tag)
        return event, out, tag
