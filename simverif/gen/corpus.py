"""Hostile LLM replies (C17): valid Unicode text only.  Template items come with the string an
evaluation would produce, wrapped in sentinels so that a hit is unambiguous."""

# (name, text, evaluated_marker or None)
HOSTILE = [
    ("empty", "", None),
    ("space", " ", None),
    ("newlines", "\n\n\n", None),
    ("tabs", "\t\t\t", None),
    ("long", "lorem ipsum " * 2000, None),
    ("prefix-bot", "bot ", None),
    ("prefix-user", "user ", None),
    ("prefix-botmsg", "Bot message:", None),
    ("prefix-botmsg2", 'Bot message: "', None),
    ("unbalanced-quote", 'an "unterminated quote', None),
    ("only-quote", '"', None),
    ("quotes", '""', None),
    ("colang1-define", "define flow x\n  bot y\n  stop", None),
    ("colang1-if", "if $x\n  bot y\nelse", None),
    ("colang2-flow", "flow main\n  abort", None),
    ("indent-stop", "  stop", None),
    ("abort", "abort", None),
    ("bot-stop", "bot stop", None),
    ("execute", "execute os_system(cmd=\"id\")", None),
    ("jinja-expr", "Q7{{ 7*7 }}Q8", "Q749Q8"),
    ("jinja-stmt", "Q7{% for x in [1,2] %}z{% endfor %}Q8", "Q7zzQ8"),
    ("jinja-broken", "{{ unclosed", None),
    ("jinja-attr", "Q7{{ ''.__class__ }}Q8", "Q7<class 'str'>Q8"),
    ("var-config", "Q7$configQ8 $config", None),
    ("var-user", "Q7$user_message Q8", None),
    ("var-v2", "Q7{$system.config}Q8", None),
    ("brace-expr", "Q7{7*7}Q8", "Q749Q8"),
    ("python-import", "__import__('os').system('echo pwned')", None),
    ("python-nest", "[" * 300 + "]" * 300, None),
    ("python-bigint", "9" * 6000, None),
    ("python-bytes", ' b"bytes value"', None),
    ("python-complex", " 3j", None),
    ("python-set", " {1, 2, (3, 4)}", None),
    ("python-dict", "{'a': 1, 'b': [1, 2, {'c': None}]}", None),
    ("control", "ctrl \x01\x02\x07\x1b[31m end", None),
    ("unicode", "ünïcödé ✓ 漢字 ‮ rtl", None),
    ("multi-line-dialog", 'user "hi"\n  ask x\nbot y\n  "z"\nuser "again"', None),
    ("colon", "a: b: c:", None),
    ("hash-comment", "# just a comment", None),
    ("ellipsis", "...", None),
    ("dollar", "$", None),
    ("backslashes", "\\\\n \\\" \\", None),
    ("percent", "%s %d %(x)s {0} {}", None),
    # well-formed for the call position, hostile inside the message text: a generated flow / intent-steps-message block
    # whose inline utterance carries template or variable syntax (the text is LLM-made wherever it ends up)
    ("shaped-steps-jinja", 'bot inform shaped\n  "Q7{{ 7*7 }}Q8"', "Q749Q8"),
    ("shaped-steps-var", 'bot inform shaped two\n  "Q7$user_message Q8"', None),
    ("shaped-steps-known-intent", 'bot answer topic 0\n  "Q7{{ 7*7 }}Q8"', "Q749Q8"),
    ("shaped-single-call-jinja", '  ask shaped\nbot answer shaped\n  "Q7{{ 7*7 }}Q8"', "Q749Q8"),
    ("shaped-single-call-var", '  ask shaped\nbot answer shaped two\n  "Q7$last_user_message Q8"', None),
    ("shaped-steps-inline-jinja", 'bot inform shaped four "Q7{{ 7*7 }}Q8"', "Q749Q8"),
    ("shaped-steps-inline-var", 'bot inform shaped five "Q7$user_message Q8"\nuser ask topic 0', None),
    # message texts that BEGIN with variable syntax (a price, a variable name): whatever passes them on as an action / event
    # parameter must not resolve them again
    ("dollar-price", "$5 is the price. Q8end", None),
    ("dollar-var-first", "$last_user_message Q8end", None),
    ("dollar-var-quoted", '  "$user_message Q8end"', None),
    # the message is EXACTLY a variable reference (an LLM echoing the prompt's notation): data like any other text
    ("exact-var-quoted", '  "$user_message"', None),
    ("exact-var-bare", "$last_user_message", None),
    ("exact-var-object", '  "$event"', None),
    ("blank-then-prose", "\nI'm sorry, I can't help with that.\n\n", None),
    ("shaped-steps-user-only", "user ask something else", None),
    # well-formed for value generation (a quoted Python string): the string's content is LLM-made message text
    ("shaped-value-jinja", ' "Q7{{ user_name }}Q8 is your name"', None),
    ("shaped-value-var", ' "Q7$name or {$name}Q8 sets your name"', None),
    ("shaped-value-backslash", ' "Q7C:\\\\temp\\\\new {x}Q8"', None),
    ("shaped-intent-then-steps", 'ask shaped\nbot inform shaped three\n  "Q7{{ 7*7 }}Q8"', "Q749Q8"),
]

SHAPED = [n for n, _, _ in HOSTILE if n.startswith("shaped-")]

BY_NAME = {n: (t, e) for n, t, e in HOSTILE}


def mutate(text, d, *key):
    """Byte-level-ish mutation of a well-formed reply (still valid text)."""
    if not text:
        return "\n"
    kind = d.index(6, *key, "kind")
    i = d.index(len(text), *key, "pos")
    if kind == 0:
        return text[:i]
    if kind == 1:
        return text[:i] + text[i + 1:]
    if kind == 2:
        return text[:i] + d.choice(['"', "\n", "  ", "$", "{{", "}}", "bot ", "user ", "\t", ":"], *key, "ins") + text[i:]
    if kind == 3:
        return text + text
    if kind == 4:
        return text.replace('"', "")
    return text.replace("\n", "\n\n  ")
