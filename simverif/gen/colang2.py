"""Grammar-based generator of Colang 2 programs (as a JSON AST that renders to source text).

Constraints kept on purpose (see DESIGN / oracle lessons):
* flow names are lower-case (a capitalised bare name is an event for the interpreter);
* the call graph is acyclic (f_i only references f_j, j > i): every recursive call/loop would need
  a waiting statement anyway, and the premise of C10 stays decidable from the text;
* every ``while`` body contains a waiting statement;
* activations are generated at the head of a flow (before its first waiting statement);
* an activated flow starts with a wait on an external event unless ``instant_end`` is asked for.
"""

EVENTS = ["E1", "E2", "E3", "E4"]
ACTIONS = [("UtteranceBotAction", "script"), ("GestureBotAction", "gesture")]
VALUES = [1, 2]


RICH_VALUES = ['regex("ab.*c")', '{"a", "b"}', '[[1], {"k": [2, 3]}]', "None", "True", "1.5", '{"k": {"n": [1, {"z": "q"}]}}', '"text \\"quoted\\""', "[]", "{}", "-3",
               # containers whose keys / members are not strings, tuples (Colang has no tuple literal: they come out of .items() and find_all), sets inside containers, case-insensitive regexes
               '{1: "a", 2: "b"}', 'list({"a": 1, "b": 2}.items())[0]', '{"k": {"a", "b"}}', 'regex("(?i)ab")', 'find_all(regex("(t)(o)"), "to to")', '{"k": list({"a": 1}.items())[0]}', "0.1", '{True: "t"}', '{1.5: [1]}']


def render_args(args):
    if not args:
        return ""
    return ", ".join("%s=%s" % (k, v if isinstance(v, str) and v.startswith("$") else repr(v).replace("'", '"')) for k, v in args.items())


def render_stmt(s, ind):
    p = "  " * ind
    k = s["k"]
    if k == "match":
        return [p + "match %s(%s)%s" % (s["ev"], render_args(s.get("args")), (" as %s" % s["ref"]) if s.get("ref") else "")]
    if k == "send":
        return [p + "send %s(%s)" % (s["ev"], render_args(s.get("args")))]
    if k in ("await_action", "start_action"):
        return [p + "%s %s(%s)%s" % ("await" if k == "await_action" else "start", s["action"], render_args(s.get("args")), (" as %s" % s["ref"]) if s.get("ref") else "")]
    if k == "match_ref":
        return [p + "match %s.%s()" % (s["ref"], s["member"])]
    if k == "send_ref":
        return [p + "send %s.%s()" % (s["ref"], s["member"])]
    if k in ("start_flow", "await_flow", "activate_flow"):
        kw = {"start_flow": "start", "await_flow": "await", "activate_flow": "activate"}[k]
        a = render_args(s.get("args"))
        return [p + "%s %s%s%s" % (kw, s["flow"], (" " + " ".join(v if isinstance(v, str) and v.startswith("$") else repr(v).replace("'", '"') for v in s["pos"])) if s.get("pos") else "", (" as %s" % s["ref"]) if s.get("ref") else "")]
    if k == "group":
        return [p + "%s %s" % (s["op"], render_formula(s["formula"]))]
    if k == "when":
        out = []
        for i, c in enumerate(s["cases"]):
            out.append(p + ("when " if i == 0 else "or when ") + c["cond"])
            for b in c["body"]:
                out += render_stmt(b, ind + 1)
        if s.get("else") is not None:
            out.append(p + "else")
            for b in s["else"]:
                out += render_stmt(b, ind + 1)
        return out
    if k == "if":
        out = [p + "if " + s["cond"]]
        for b in s["then"]:
            out += render_stmt(b, ind + 1)
        if s.get("else"):
            out.append(p + "else")
            for b in s["else"]:
                out += render_stmt(b, ind + 1)
        return out
    if k == "while":
        out = [p + "while " + s["cond"]]
        for b in s["body"]:
            out += render_stmt(b, ind + 1)
        return out
    if k == "assign":
        return [p + "%s = %s" % (s["var"], s["expr"])]
    if k == "global":
        return [p + "global %s" % s["var"]]
    if k in ("abort", "return", "pass", "break", "continue"):
        return [p + k + ((" " + s["expr"]) if s.get("expr") else "")]
    if k == "raw":
        # "@IND@" after a newline stands for the indentation of the statement (several lines in one planted statement)
        return [p + s["text"].replace("@IND@", p)]
    raise ValueError(k)


def render_formula(f):
    """f: leaf string or {"op": "and"|"or", "args": [...]}"""
    if isinstance(f, str):
        return f
    inner = (" %s " % f["op"]).join(render_formula(a) for a in f["args"])
    return "(" + inner + ")"


def render(prog):
    lines = []
    for fl in prog["flows"]:
        for dec in fl.get("decorators", []):
            lines.append(dec)
        head = "flow " + fl["name"]
        if fl.get("params"):
            head += " " + " ".join(fl["params"])
        lines.append(head)
        if fl.get("priority") is not None:
            lines.append("  priority %s" % fl["priority"])
        body = fl["body"] or [{"k": "pass"}]
        for s in body:
            lines += render_stmt(s, 1)
        lines.append("")
    return "\n".join(lines)


def count_statements(prog):
    def cnt(body):
        n = 0
        for s in body:
            n += 1
            if s["k"] == "when":
                for c in s["cases"]:
                    n += cnt(c["body"])
                n += cnt(s.get("else") or [])
            elif s["k"] == "if":
                n += cnt(s["then"]) + cnt(s.get("else") or [])
            elif s["k"] == "while":
                n += cnt(s["body"])
        return n
    return sum(cnt(f["body"]) for f in prog["flows"])


# ------------------------------------------------------------------------------------------------

class Gen:
    def __init__(self, d, n_flows=None, instant_end=False, allow_vars=True, allow_actions=True, allow_groups=True, allow_when=True, max_body=4, rich_values=False, action_scope_bias=False, finishing_main=False, events=None):
        self.d = d
        self.n = n_flows if n_flows is not None else d.randint(2, 6, "nflows")
        self.instant_end = instant_end
        self.allow_vars = allow_vars
        self.allow_actions = allow_actions
        self.allow_groups = allow_groups
        self.allow_when = allow_when
        self.max_body = max_body
        self.rich_values = rich_values
        self.action_scope_bias = action_scope_bias
        self.finishing_main = finishing_main
        # a reduced event alphabet makes parent and child flows wait for the SAME event: one delivery then ends a flow and
        # advances its children in the same processing step (the races behind F15, F19-F22)
        self.events = list(events) if events else None
        self.few_actions = bool(events) and d.chance(0.6, "few_actions")
        self.use_ref_helper = allow_actions and d.chance(0.35, "ref_helper")
        self.uid = 0
        self.activated = set()

    def fresh(self, p):
        self.uid += 1
        return "%s%d" % (p, self.uid)

    def wait_external(self, key):
        d = self.d
        ev = d.choice(self.events or EVENTS, key, "ev")
        args = {}
        if d.chance(0.15 if self.events else 0.4, key, "arg"):
            args["x"] = d.choice(VALUES, key, "x")
        return {"k": "match", "ev": ev, "args": args}

    def marker(self, key):
        return {"k": "send", "ev": self.fresh("M"), "args": {}}

    def action_stmts(self, key):
        d = self.d
        name, par = d.choice(ACTIONS[:1] if self.few_actions else ACTIONS, key, "act")
        # with few_actions different flows ask for the very same action (same name and arguments): the interpreter then
        # starts it once and shares it between the flows that asked (the bookkeeping behind F21, F22)
        val = d.choice(["s1", "s2"], key, "fewval") if self.few_actions else self.fresh("s")
        form = d.weighted([("await", 3), ("start", 2), ("start_ref_wait", 2)], key, "form")
        if form == "await":
            return [{"k": "await_action", "action": name, "args": {par: val}}]
        if form == "start":
            return [{"k": "start_action", "action": name, "args": {par: val}}]
        ref = "$" + self.fresh("a")
        return [{"k": "start_action", "action": name, "args": {par: val}, "ref": ref}, {"k": "match_ref", "ref": ref, "member": "Finished"}]

    def flow_ref(self, i, key):
        """Reference to a later flow (acyclic)."""
        if i + 1 >= self.n:
            return None
        j = self.d.randint(i + 1, self.n - 1, key, "target")
        return "f%d" % j

    def body(self, i, depth, key, is_activated=False):
        d = self.d
        out = []
        n = d.randint(1, self.max_body, key, "n")
        # activations first (head of the flow)
        if depth == 0 and d.chance(0.3, key, "act?"):
            tgt = self.flow_ref(i, (key, "actf"))
            if tgt:
                out.append({"k": "activate_flow", "flow": tgt})
                self.activated.add(tgt)
        if is_activated and not self.instant_end:
            out.append(self.wait_external((key, "first")))
        for s in range(n):
            out += self.stmt(i, depth, (key, s))
        return out

    def stmt(self, i, depth, key):
        d = self.d
        kinds = [("wait", 5), ("marker", 3)]
        if self.allow_actions:
            kinds.append(("action", 4))
        kinds += [("start_flow", 2), ("await_flow", 2)]
        if self.allow_when and depth < 2:
            kinds.append(("when", 6 if self.action_scope_bias else 2))
        if self.allow_vars:
            kinds += [("assign", 1), ("if", 1 if depth < 2 else 0), ("while", 1 if depth < 1 else 0)]
        if self.allow_groups:
            kinds.append(("group", 4 if self.action_scope_bias else 1))
        if self.rich_values:
            kinds += [("show", 4), ("refshow", 2), ("alias", 2)]
        if self.allow_actions and self.use_ref_helper:
            kinds.append(("ref_helper", 2))
        if self.allow_vars:
            kinds.append(("flow_ctl", 1.5))
        kinds.append(("abort", 0.4))
        kinds.append(("return", 0.3))
        k = d.weighted([x for x in kinds if x[1] > 0], key, "kind")
        if k == "wait":
            return [self.wait_external(key)]
        if k == "marker":
            return [self.marker(key)]
        if k == "action":
            return self.action_stmts(key)
        if k in ("start_flow", "await_flow"):
            tgt = self.flow_ref(i, key)
            if not tgt:
                return [self.marker(key)]
            return [{"k": k, "flow": tgt}]
        if k == "when":
            ncase = d.randint(1, 2, key, "ncase")
            cases = []
            for c in range(ncase):
                cond_kind = d.weighted([("ev", 3), ("flow", 1), ("action", (6 if self.action_scope_bias else 1.5) if self.allow_actions else 0)], key, "ck", c)
                tgt = self.flow_ref(i, (key, "wf", c)) if cond_kind == "flow" else None
                if tgt:
                    cond = tgt
                elif cond_kind == "action":
                    # an action started inside the when scope: it is stopped when another case wins
                    name, par = d.choice(ACTIONS, key, "wact", c)
                    cond = '%s(%s="%s")' % (name, par, self.fresh("s"))
                else:
                    w = self.wait_external((key, "wc", c))
                    cond = "%s(%s)" % (w["ev"], render_args(w["args"]))
                cases.append({"cond": cond, "body": [self.marker((key, "wm", c))] + (self.stmt(i, depth + 1, (key, "wb", c)) if d.chance(0.4, key, "wbb", c) else [])})
            els = [self.marker((key, "we"))] if d.chance(0.3, key, "else") else None
            return [{"k": "when", "cases": cases, "else": els}]
        if k == "assign":
            return [{"k": "assign", "var": "$v%d" % d.randint(0, 1, key, "var"), "expr": str(d.choice([0, 1, 2, '"a"', "[1, 2]", '{"k": 1}'], key, "val"))}]
        if k == "if":
            v = "$v%d" % d.randint(0, 1, key, "var")
            return [{"k": "assign", "var": v, "expr": str(d.choice([0, 1], key, "iv"))},
                    {"k": "if", "cond": "%s == 1" % v, "then": self.stmt(i, depth + 1, (key, "then")), "else": self.stmt(i, depth + 1, (key, "else")) if d.chance(0.5, key, "helse") else None}]
        if k == "while":
            v = "$i%d" % depth
            body = [self.wait_external((key, "ww")), self.marker((key, "wm")), {"k": "assign", "var": v, "expr": "%s + 1" % v}]
            iters = d.randint(1, 2, key, "iters")
            jump = d.weighted([("none", 5), ("break", 2), ("continue", 2)], key, "jump")
            if jump != "none":
                # leaving the loop / the iteration early (after the counter moved on, so the loop still ends)
                iters += 1
                body += [{"k": "if", "cond": "%s == 1" % v, "then": [{"k": jump}], "else": None}, self.marker((key, "wm2"))]
            return [{"k": "assign", "var": v, "expr": "0"}, {"k": "while", "cond": "%s < %d" % (v, iters), "body": body}]
        if k == "group" and self.allow_actions and d.chance(0.8 if self.action_scope_bias else 0.4, key, "agroup"):
            # await-group with actions (and optionally a flow): the scope stops the losers of an or-group
            op = d.choice(["and", "or", "or"], key, "gop")
            leaves = []
            # sometimes the members of the group ask for the very same action (same name, same arguments): two heads of ONE flow
            # instance then reach an identical action start in the same step
            same = d.chance(0.25, key, "gsame")
            for j in range(d.randint(2, 3, key, "ng")):
                name, par = (ACTIONS[0] if same else d.choice(ACTIONS, key, "gact", j))
                leaves.append('%s(%s="%s")' % (name, par, d.choice(["g1", "g2"], key, "gsv", j) if same else self.fresh("s")))
            tgt = self.flow_ref(i, (key, "gflow")) if d.chance(0.3, key, "gf") else None
            if tgt:
                leaves[-1] = tgt
            return [{"k": "group", "op": "await", "formula": {"op": op, "args": leaves}}]
        if k == "group":
            op = d.choice(["and", "or"], key, "gop")
            a, b = self.wait_external((key, "ga")), self.wait_external((key, "gb"))
            return [{"k": "group", "op": "match", "formula": {"op": op, "args": ["%s(%s)" % (a["ev"], render_args(a["args"])), "%s(%s)" % (b["ev"], render_args(b["args"]))]}}]
        if k == "show":
            # a value of a serialisation-relevant type, made observable through a marker event
            v = "$r%d" % d.randint(0, 2, key, "rv")
            expr = d.choice(RICH_VALUES, key, "rich")
            out = []
            if self.allow_actions and not expr.startswith("regex") and expr != "{}" and d.chance(0.3, key, "viaaction"):  # (`{}` as a call argument does not parse)
                # the value lives in the start arguments of an action object; it is read back from there after the wait
                ref = "$" + self.fresh("d")
                if d.chance(0.5, key, "viaaction2"):
                    # two action objects created back to back in the same flow: each keeps its own arguments over a save / restore
                    ref2 = "$" + self.fresh("d")
                    expr2 = d.choice([x for x in RICH_VALUES if not x.startswith("regex") and x != "{}"], key, "rich2")
                    return [{"k": "raw", "text": "start DataBotAction(data=%s) as %s" % (expr, ref)}, {"k": "raw", "text": "start Data2BotAction(payload=%s) as %s" % (expr2, ref2)},
                            self.wait_external((key, "rw")),
                            {"k": "raw", "text": 'send %s(v=%s.start_event_arguments["data"], w=%s.start_event_arguments, c=%s.context)' % (self.fresh("M"), ref, ref2, ref2)}]
                return [{"k": "raw", "text": "start DataBotAction(data=%s) as %s" % (expr, ref)}, self.wait_external((key, "rw")),
                        {"k": "raw", "text": 'send %s(v=%s.start_event_arguments["data"])' % (self.fresh("M"), ref)}]
            if d.chance(0.3, key, "glob"):
                out.append({"k": "global", "var": v})
            out.append({"k": "assign", "var": v, "expr": expr})
            out.append(self.wait_external((key, "rw")))
            out.append({"k": "send", "ev": self.fresh("M"), "args": {"v": v}})
            return out
        if k == "ref_helper":
            # one statement (`match $ref.Finished()` in the helper flow) that waits for whatever object it is handed: an utterance
            # in one call, a gesture in the next - the event it waits for is a property of the bound object, not of the statement
            name, par = d.choice(ACTIONS, key, "hact")
            ref = "$" + self.fresh("h")
            return [{"k": "start_action", "action": name, "args": {par: self.fresh("s")}, "ref": ref}, {"k": "await_flow", "flow": "zwait", "pos": [ref]}]
        if k == "alias":
            # two variables reach the same container (a record inside a structure and a variable for it); after a wait - where
            # the state may be saved and restored - the container is changed in place through one of them and read through the other
            rec, cur = "$" + self.fresh("rec"), "$" + self.fresh("cur")
            shape = d.choice(["dict-in-list", "list-in-dict", "dict-in-dict", "set-in-dict"], key, "ashape")
            if shape == "dict-in-list":
                init, path, mut = '{"items": [{"done": 0, "n": 1}], "n": 2}', '%s["items"][0]' % rec, '(%s.update({"done": 1}))' % cur
            elif shape == "list-in-dict":
                init, path, mut = '{"items": [1, 2], "n": 2}', '%s["items"]' % rec, "(%s.append(7))" % cur
            elif shape == "dict-in-dict":
                init, path, mut = '{"cfg": {"lim": 1}, "n": 2}', '%s["cfg"]' % rec, '(%s.update({"lim": 5}))' % cur
            else:
                init, path, mut = '{"tags": {"a"}, "n": 2}', '%s["tags"]' % rec, '(%s.add("z"))' % cur
            return [{"k": "assign", "var": rec, "expr": init}, {"k": "assign", "var": cur, "expr": path}, self.wait_external((key, "aw")),
                    {"k": "raw", "text": mut}, {"k": "send", "ev": self.fresh("M"), "args": {"v": rec}}]
        if k == "refshow":
            # references to events / actions kept in variables across a wait
            ref = "$" + self.fresh("e")
            w = self.wait_external((key, "rf"))
            w["ref"] = ref
            name, par = d.choice(ACTIONS, key, "ract")
            aref = "$" + self.fresh("a")
            return [w, {"k": "start_action", "action": name, "args": {par: self.fresh("s")}, "ref": aref}, self.wait_external((key, "rf2")),
                    {"k": "raw", "text": "send %s(n=%s.name, a=%s.name)" % (self.fresh("M"), ref, aref)}]
        if k == "flow_ctl":
            # a started flow held in a reference: stopped through the reference, or waited for through it
            tgt = self.flow_ref(i, key)
            if not tgt:
                return [self.marker(key)]
            ref = "$" + self.fresh("fr")
            what = d.weighted([("stop", 3), ("finished", 2), ("either", 2)], key, "fctl")
            out = [{"k": "start_flow", "flow": tgt, "ref": ref}, self.wait_external((key, "fw"))]
            if what == "stop":
                out.append({"k": "send_ref", "ref": ref, "member": "Stop"})
            elif what == "finished":
                out.append({"k": "match_ref", "ref": ref, "member": "Finished"})
            else:
                w = self.wait_external((key, "fw2"))
                out.append({"k": "group", "op": "match", "formula": {"op": "or", "args": ["%s.Finished()" % ref, "%s.Failed()" % ref, "%s(%s)" % (w["ev"], render_args(w["args"]))]}})
            out.append(self.marker((key, "fm")))
            return out
        if k == "abort":
            return [{"k": "abort"}]
        if k == "return":
            return [{"k": "return"}]
        raise ValueError(k)

    def program(self):
        d = self.d
        flows = []
        # decide up front which flows main activates, so that their bodies start with a wait
        main_targets = []
        for t in range(d.randint(1, min(3, self.n), "mainrefs")):
            j = d.randint(0, self.n - 1, "mainref", t)
            how = d.weighted([("activate_flow", 3), ("start_flow", 2)], "mainhow", t)
            main_targets.append((how, "f%d" % j))
            if how == "activate_flow":
                self.activated.add("f%d" % j)
        bodies = {}
        for i in range(self.n):
            # bodies are generated front to back; a flow activated by an earlier flow is known by then
            bodies[i] = None
        for i in range(self.n):
            name = "f%d" % i
            bodies[i] = self.body(i, 0, ("f", i), is_activated=name in self.activated)
        # flows activated by a later-generated statement than their own body: patch the first statement
        for i in range(self.n):
            name = "f%d" % i
            if name in self.activated and not self.instant_end:
                b = bodies[i]
                first_non_act = next((s for s in b if s["k"] != "activate_flow"), None)
                if first_non_act is None or first_non_act["k"] != "match":
                    pos = len([s for s in b if s["k"] == "activate_flow"])
                    b.insert(pos, self.wait_external(("patch", i)))
        main_body = [{"k": how, "flow": tgt} for how, tgt in main_targets]
        if self.finishing_main and d.chance(0.45 if self.events else 0.25, "mainends"):
            # the main flow finishes (after an event): everything it started stops, the story restarts on the next event
            main_body.append(self.wait_external("mainwait"))
            main_body.append(self.marker("mainmark"))
        else:
            main_body.append({"k": "match", "ev": "Never", "args": {}})
        flows.append({"name": "main", "body": main_body})
        for i in range(self.n):
            fl = {"name": "f%d" % i, "body": bodies[i]}
            if d.chance(0.3 if self.events else 0.15, "loopdec", i):
                fl["decorators"] = ['@loop("L%d")' % d.randint(1, 2, "loopid", i)]
            flows.append(fl)
        if self.use_ref_helper:
            flows.append({"name": "zwait", "params": ["$ref"], "body": [{"k": "match_ref", "ref": "$ref", "member": "Finished"}]})
        return {"flows": flows}


def gen_program(d, **kw):
    return Gen(d, **kw).program()


def gen_kinship_competition(d, shared_bias=False):
    """Constructed family for C06: 3-6 flows that all wait for the SAME event and then act (start/await an action drawn
    from two scripts - identical actions are shared -, or send an event), arranged in a random forest: a flow starts /
    activates / awaits its children at its head, a child may be linked from a second flow (two instances of one flow
    under different parents), some flows sit in other interaction loops.  One delivery makes relatives compete: losers
    are aborted together with their children while those children may be winners or co-winners of the same conflict
    (the bookkeeping behind F19-F22)."""
    n = d.randint(3, 6, "kn")
    ev = d.choice(EVENTS, "kev")
    children = {k: [] for k in range(n)}
    roots = []
    for k in range(n):
        if k == 0 or d.chance(0.3, "kroot", k):
            roots.append(k)
        else:
            children[d.randint(0, k - 1, "kparent", k)].append(k)
        if k >= 2 and d.chance(0.35, "ksecond", k):
            # a second link to the same flow from another flow: two instances under different parents
            children[d.randint(0, k - 1, "kparent2", k)].append(k)
    flows = []
    # shared_bias (C11): one action script for everybody, plain `start`ed roots, flows that end right after starting the action next
    # to flows that wait for it: a finished flow instance and a running one then share one action object
    main_body = [{"k": d.weighted([("activate_flow", 1 if shared_bias else 3), ("start_flow", 3 if shared_bias else 2)], "kmainhow", r), "flow": "f%d" % r} for r in roots]
    if d.chance(0.4, "kmainends"):
        main_body += [{"k": "match", "ev": ev, "args": {}}, {"k": "send", "ev": "Mmain", "args": {}}]
    else:
        main_body.append({"k": "match", "ev": "Never", "args": {}})
    flows.append({"name": "main", "body": main_body})
    for k in range(n):
        body = []
        awaited = None
        for c in sorted(set(children[k])):
            how = d.weighted([("activate_flow", 3), ("start_flow", 3), ("await_flow", 1 if awaited is None else 0)], "khow", k, c)
            if how == "await_flow":
                awaited = c
            else:
                body.append({"k": how, "flow": "f%d" % c})
        if awaited is not None:
            body.append({"k": "await_flow", "flow": "f%d" % awaited})
        else:
            body.append({"k": "match", "ev": ev, "args": {}})
        act = d.weighted([("start_action", 4), ("await_action", 4 if shared_bias else 2), ("send", 0.5 if shared_bias else 2), ("start_ref_wait", 3 if shared_bias else 1)], "kact", k)
        script = "s1" if shared_bias and d.chance(0.85, "kshared", k) else d.choice(["s1", "s2"], "kscript", k)
        if act == "send":
            body.append({"k": "send", "ev": "M%d" % k, "args": {}})
        elif act == "start_ref_wait":
            body += [{"k": "start_action", "action": "UtteranceBotAction", "args": {"script": script}, "ref": "$a%d" % k}, {"k": "match_ref", "ref": "$a%d" % k, "member": "Finished"}]
        else:
            body.append({"k": act, "action": "UtteranceBotAction", "args": {"script": script}})
        tail = d.weighted([("end", 5 if shared_bias and act == "start_action" else 2), ("match_again", 3), ("when", 2), ("hold", 2)], "ktail", k)
        if shared_bias and act in ("await_action", "start_ref_wait") and tail == "end":
            tail = "marker"
        if tail == "match_again":
            body += [{"k": "match", "ev": ev, "args": {}}, {"k": "send", "ev": "T%d" % k, "args": {}}]
        elif tail == "when":
            body.append({"k": "when", "cases": [{"cond": "%s()" % ev, "body": [{"k": "send", "ev": "W%d" % k, "args": {}}]}], "else": None})
        elif tail == "hold":
            body.append({"k": "match", "ev": "Hold", "args": {}})
        elif tail == "marker":
            body += [{"k": "send", "ev": "A%d" % k, "args": {}}, {"k": "match", "ev": "Hold", "args": {}}]
        fl = {"name": "f%d" % k, "body": body}
        if d.chance(0.3, "kloop", k):
            fl["decorators"] = ['@loop("L%d")' % d.randint(1, 2, "kloopid", k)]
        flows.append(fl)
    deliveries = [{"type": ev} for _ in range(d.randint(1, 4, "kdeliv"))]
    return {"flows": flows}, deliveries


def gen_deliveries(d, n, key="deliv", events=None):
    """A seeded list of external user events."""
    out = []
    for k in range(n):
        ev = d.choice(events or EVENTS, key, k, "ev")
        ev_d = {"type": ev}
        if d.chance(0.6, key, k, "hasx"):
            ev_d["x"] = d.choice(VALUES, key, k, "x")
        out.append(ev_d)
    return out
