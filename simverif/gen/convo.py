"""Generator of RAILS-world scenarios (configuration spec + conversations + verdict table)."""
from ..kernel.draws import SHORT_GRID

# passthrough_dialog: passthrough together with dialog rails (user intents and flows): the bot message is then generated from the user message itself
V1_MODES = [("rails_only", 3), ("dialog", 4), ("single_call", 2), ("passthrough", 2), ("embeddings_only", 1), ("multistep", 1), ("passthrough_dialog", 1.5)]
WORDS = ["please", "tell", "me", "about", "now", "ok", "thanks", "why", "how"]


def tok(c, t):
    return "#c%dt%d#" % (c, t)


def gen_rails(d, side, colang, allow_shipped=True):
    n = d.weighted([(0, 1), (1, 4), (2, 4), (3, 2)], side, "n")
    rails = []
    shipped_used = False
    for i in range(n):
        kinds = [("check", 6)]
        if colang == "1.0":
            kinds.append(("rewrite_assign", 2))
        if allow_shipped and not shipped_used:
            kinds.append(("shipped", 2))
        k = d.weighted(kinds, side, "kind", i)
        if k == "shipped":
            shipped_used = True
        r = {"kind": k}
        if k == "check" and colang == "1.0" and d.chance(0.4, side, "textparam", i):
            r["text_param"] = True
        rails.append(r)
    return rails


def gen_spec(d, colang=None, n_convs=1, max_turns=5, modes=None, verdict_bias=None, allow_shipped=True, force=None):
    colang = colang or d.weighted([("1.0", 3), ("2.x", 2)], "colang")
    spec = {"colang": colang}
    if colang == "1.0":
        spec["mode"] = d.weighted(modes or V1_MODES, "mode")
    else:
        spec["mode"] = "rails_only"
    spec["in_rails"] = gen_rails(d, "in", colang, allow_shipped)
    spec["out_rails"] = gen_rails(d, "out", colang, allow_shipped)
    spec["exceptions"] = d.chance(0.25, "exceptions")
    if force:
        spec.update(force)
    verdicts = {}
    intents = {}
    convs = []
    for c in range(n_convs):
        nt = d.randint(1, max_turns, "nturns", c)
        turns = []
        for t in range(nt):
            tk = tok(c, t)
            topic = d.randint(0, 2, "topic", c, t)
            free = d.chance(0.35, "free", c, t)
            intents[tk] = "free" if free else "topic %d" % topic
            words = " ".join(d.choice(WORDS, "w", c, t, j) for j in range(d.randint(0, 3, "nw", c, t)))
            text = ("topic %d %s SECRET%d_%d %s" % (topic, words, c, t, tk)).replace("  ", " ")
            turns.append({"tok": tk, "text": text})
            for side in ("in", "out"):
                for i, r in enumerate(spec["%s_rails" % side]):
                    rail = "%s%d" % (side, i)
                    opts = [("allow", 7), ("block", 2 if not verdict_bias else verdict_bias)]
                    if colang == "1.0" and r["kind"] != "shipped":
                        opts.append(("rewrite", 2))
                    v = d.weighted(opts, "verdict", rail, c, t)
                    if r["kind"] == "rewrite_assign" and v == "block":
                        v = "rewrite"
                    if v != "allow":
                        verdicts.setdefault(rail, {})[tk] = v
        convs.append({"turns": turns})
    spec["verdicts"] = verdicts
    spec["intents"] = intents
    spec["convs"] = convs
    spec["lat_seed"] = d.randint(0, 1 << 30, "lat_seed")
    spec["lat_mode"] = d.weighted([("zero", 2), ("short", 3)], "lat_mode")
    return spec


def latency_fns(spec):
    """(llm latency fn, action latency fn) - pure functions of the spec."""
    from ..kernel.draws import Draws

    d = Draws(spec.get("lat_seed", 0), spec.get("lat_overrides"))
    if spec.get("lat_mode", "zero") == "zero":
        return (lambda call: 0.0), (lambda kind, name, n: 0.0)
    return (lambda call: d.choice(SHORT_GRID, "llm", call.n)), (lambda kind, name, n: d.choice(SHORT_GRID, "act", n))
