"""Sensitivity pass (development tool, not a manifest command): ./check mutants [--only C06,...]

Applies small realistic patches one at a time to a scratch worktree of /repo's HEAD under /dev/shm (imported by the
checks through PYTHONPATH; /repo itself is never touched), runs the quick check of the property each one breaks, and
restores the worktree (git checkout -- .); the worktree is removed at the end.  Two families:
  * regressions: the reverse of each `fix:` commit recorded in KNOWN_FINDINGS.txt;
  * hand-written mutants (text substitutions) from DESIGN.md section 2.7.
/verif/seeded/<id>/patch.diff (changes written by independent sub-agents) are run the same way.
Nothing is ever committed in /repo.  Results are printed as a table and written to
/verif/seeded/RESULTS.json.
"""
import glob
import json
import os
import re
import subprocess
import sys
import time

ROOT = os.path.dirname(os.path.dirname(os.path.abspath(__file__)))
SRC_REPO = "/repo"
# The patches are applied to a scratch worktree of /repo's HEAD (removed afterwards), never to /repo itself; the checks
# import it through PYTHONPATH and write their evidence and replay files to a scratch directory as well.
REPO = "/dev/shm/simverif-mutants-wt"
SCRATCH = "/dev/shm/simverif-mutants-out"

# (name, property, file, old, new)
# Three hand-written mutants are NOT caught and were examined (session 3):
#   input-rails-after-block-continue (C01): behaviour-neutral - with `"stop"` never recognised in compute_next_steps a blocked turn still
#       ends with the refusal and no later rail / LLM call in all four generation modes (other mechanisms stop the turn);
#   batch-full-off-by-one (C19): lets a batch exceed max_batch_size - the property does not bound batch sizes;
#   bot-message-rendered-as-template (C17): the pattern hits the `general` fallback of generate_intent_steps_message (single-call
#       mode in a configuration without user message examples), a mode outside the ones C17 quantifies over.
HAND = [
    ("skip-first-output-rail", "C02", "nemoguardrails/rails/llm/llm_flows.co", "define subflow run output rails\n  \"\"\"Runs all the output rails in a sequential order. \"\"\"\n  $i = 0", "define subflow run output rails\n  \"\"\"Runs all the output rails in a sequential order. \"\"\"\n  $i = 1"),
    ("input-rails-after-block-continue", "C01", "nemoguardrails/colang/v1_0/runtime/flows.py", "        if last_event[\"type\"] == \"BotIntent\" and last_event[\"intent\"] == \"stop\":\n            # In this case, we remove any next steps\n            next_steps = []", "        if last_event[\"type\"] == \"BotIntent\" and last_event[\"intent\"] == \"stopp\":\n            # In this case, we remove any next steps\n            next_steps = []"),
    ("llm-params-restore-nothing", "C15", "nemoguardrails/llm/params.py", "            if hasattr(self.llm, param):\n                setattr(self.llm, param, value)\n            elif hasattr(self.llm, \"model_kwargs\"):\n                model_kwargs = getattr", "            if hasattr(self.llm, param) and param != \"temperature\":\n                setattr(self.llm, param, value)\n            elif hasattr(self.llm, \"model_kwargs\"):\n                model_kwargs = getattr"),
    ("abort-keeps-head-in-index", "C09", "nemoguardrails/colang/v2_x/runtime/statemachine.py", "    # Cleanup all head from flow\n    for head in flow_state.heads.values():\n        _remove_head_from_event_matching_structures(state, flow_state, head)\n    flow_state.heads.clear()\n\n    # Remove flow uid from parents children list\n    if (\n        flow_state.activated == 0\n        and flow_state.parent_uid\n        and flow_state.parent_uid in state.flow_states\n    ):\n        state.flow_states[flow_state.parent_uid].child_flow_uids.remove(flow_state.uid)\n\n    flow_state.status = FlowStatus.STOPPED", "    # Cleanup all head from flow\n    flow_state.heads.clear()\n\n    # Remove flow uid from parents children list\n    if (\n        flow_state.activated == 0\n        and flow_state.parent_uid\n        and flow_state.parent_uid in state.flow_states\n    ):\n        state.flow_states[flow_state.parent_uid].child_flow_uids.remove(flow_state.uid)\n\n    flow_state.status = FlowStatus.STOPPED"),
    ("flow-scope-count-not-decremented", "C06", "nemoguardrails/colang/v2_x/runtime/statemachine.py", "            action.flow_scope_count -= 1\n            if action.flow_scope_count == 0:\n                action_event = action.stop_event({})\n                action.status = ActionStatus.STOPPING\n                _generate_umim_event(state, action_event)\n\n    # Cleanup all head from flow", "            if action.flow_scope_count == 0:\n                action_event = action.stop_event({})\n                action.status = ActionStatus.STOPPING\n                _generate_umim_event(state, action_event)\n\n    # Cleanup all head from flow"),
    ("json-to-state-no-callbacks", "C11", "nemoguardrails/colang/v2_x/runtime/serialization.py", "            head.status_changed_callback = partial(\n                _flow_head_changed, state, flow_state\n            )", "            head.status_changed_callback = None"),
    ("batch-full-off-by-one", "C19", "nemoguardrails/embeddings/basic.py", "        while len(self._req_queue) >= self.max_batch_size:\n            await self._current_batch_submitted.wait()", "        while len(self._req_queue) > self.max_batch_size + 1:\n            await self._current_batch_submitted.wait()"),
    ("batch-results-by-position", "C19", "nemoguardrails/embeddings/basic.py", "        batch_ids = list(self._req_queue.keys())\n        for req_id in batch_ids:\n            batch.append(self._req_queue[req_id])", "        batch_ids = sorted(self._req_queue.keys(), reverse=len(self._req_queue) > 2)\n        for req_id in sorted(batch_ids):\n            batch.append(self._req_queue[req_id])"),
    ("commonprefix-check-removed", "C20", "nemoguardrails/server/api.py", "        if re.search(r\"[\\\\/]|(\\.\\.)\", config_id):", "        if re.search(r\"[\\\\]|(\\.\\.\\.)\", config_id):"),
    ("thread-drop-context-on-store", "C20", "nemoguardrails/server/api.py", "                await datastore.set(datastore_key, json.dumps(messages + [bot_message]))", "                await datastore.set(datastore_key, json.dumps(messages[-1:] + [bot_message]))"),
    ("conflict-picks-least-specific", "C05", "nemoguardrails/colang/v2_x/runtime/statemachine.py", "                + [1.0] * (max_length - len(head.matching_scores)),\n                reverse=True,\n            )\n            # Check if we have heads with the exact same matching scores and pick one at random (or-group)", "                + [1.0] * (max_length - len(head.matching_scores)),\n                reverse=len(group) < 3,\n            )\n            # Check if we have heads with the exact same matching scores and pick one at random (or-group)"),
    ("suffix-check-dropped-at-end", "C18", "nemoguardrails/streaming.py", "        if self.current_chunk:\n            if self.suffix and self.current_chunk.endswith(self.suffix):\n                self.current_chunk = self.current_chunk[: -1 * len(self.suffix)]", "        if self.current_chunk:\n            if self.suffix and len(self.current_chunk) > 1 and self.current_chunk.endswith(self.suffix):\n                self.current_chunk = self.current_chunk[: -1 * len(self.suffix)]"),
    ("options-output-ignored-after-dialog-off", "C16", "nemoguardrails/rails/llm/llm_flows.co", "    if $generation_options.rails.output == False\n      create event StartUtteranceBotAction(script=$user_message)", "    if $generation_options.rails.output == False or $generation_options.rails.retrieval == False\n      create event StartUtteranceBotAction(script=$user_message)"),
    ("bot-message-rendered-as-template", "C17", "nemoguardrails/actions/llm/generation.py", "            text = result.strip()\n            if text.startswith('\"'):\n                text = text[1:-1]", "            text = self._render_string(result.strip(), {})\n            if text.startswith('\"'):\n                text = text[1:-1]"),
    ("no-restart-after-abort-with-scores", "C06", "nemoguardrails/colang/v2_x/runtime/statemachine.py", "        and not flow_state.new_instance_started\n        and not failed_while_starting\n    ):", "        and not flow_state.new_instance_started\n        and not failed_while_starting\n        and len(matching_scores) < 2\n    ):"),
    ("while-offset-off-by-one", "C14", "nemoguardrails/colang/v1_0/runtime/sliding.py", None, None),
]


def sh(cmd, **kw):
    return subprocess.run(cmd, shell=True, capture_output=True, text=True, **kw)


def repo_clean():
    return sh("git -C %s status --porcelain" % REPO).stdout.strip() == ""


def run_check(prop, runs=None, seed=0):
    env = dict(os.environ)
    env["VERIF_SEED"] = str(seed)
    env["PYTHONPATH"] = REPO
    env["VERIF_EVIDENCE_DIR"] = os.path.join(SCRATCH, "evidence")
    env["VERIF_REPLAY_DIR"] = os.path.join(SCRATCH, "replays")
    cmd = [os.path.join(ROOT, "check"), prop, "--tier", "quick"]
    if runs:
        cmd += ["--runs", str(runs)]
    t0 = time.time()
    p = subprocess.run(cmd, capture_output=True, text=True, env=env, cwd=ROOT)
    viol = [l for l in p.stdout.splitlines() if l.startswith("violation ")]
    return p.returncode, viol[:3], time.time() - t0


def fixes_from_findings():
    out = []
    with open(os.path.join(ROOT, "KNOWN_FINDINGS.txt")) as f:
        for line in f:
            m = re.match(r"^fixed:\s+property=(\S+)\s+(\S+)\s+--\s+(\S+)", line)
            if m:
                out.append((m.group(3).rstrip(":"), m.group(1), m.group(2)))
    return out


def main(argv):
    only = None
    if "--only" in argv:
        only = set(argv[argv.index("--only") + 1].upper().split(","))
    families = set(a for a in argv if a in ("regressions", "hand", "seeded")) or {"regressions", "hand", "seeded"}
    sh("git -C %s worktree remove --force %s" % (SRC_REPO, REPO))
    sh("rm -rf %s %s" % (REPO, SCRATCH))
    r = sh("git -C %s worktree add --detach %s HEAD" % (SRC_REPO, REPO))
    if r.returncode != 0:
        print("cannot create scratch worktree: %s" % r.stderr[-300:])
        return 2
    results = []
    try:
        if "regressions" in families:
            for name, prop, commit in fixes_from_findings():
                if only and prop not in only:
                    continue
                r = sh("git -C %s show %s | git -C %s apply -R" % (REPO, commit, REPO))
                if r.returncode != 0:
                    results.append({"kind": "regression", "name": name, "property": prop, "commit": commit, "applied": False, "note": r.stderr[-200:]})
                    sh("git -C %s checkout -- ." % REPO)
                    continue
                code, viol, wall = run_check(prop)
                sh("git -C %s checkout -- ." % REPO)
                results.append({"kind": "regression", "name": "revert-" + name, "property": prop, "commit": commit, "applied": True, "exit": code, "caught": code == 1, "violations": viol, "wall_s": round(wall, 1)})
                print("%-40s %-4s exit=%s %s" % ("revert-" + name + "@" + commit, prop, code, (viol[0][:110] if viol else "")), flush=True)
        if "hand" in families:
            for name, prop, path, old, new in HAND:
                if old is None or (only and prop not in only):
                    continue
                full = os.path.join(REPO, path)
                src = open(full).read()
                if src.count(old) != 1:
                    results.append({"kind": "hand", "name": name, "property": prop, "applied": False, "note": "pattern occurs %d times" % src.count(old)})
                    print("%-40s %-4s NOT APPLIED (pattern occurs %d times)" % (name, prop, src.count(old)), flush=True)
                    continue
                open(full, "w").write(src.replace(old, new))
                code, viol, wall = run_check(prop)
                sh("git -C %s checkout -- ." % REPO)
                results.append({"kind": "hand", "name": name, "property": prop, "file": path, "applied": True, "exit": code, "caught": code == 1, "violations": viol, "wall_s": round(wall, 1)})
                print("%-40s %-4s exit=%s %s" % (name, prop, code, (viol[0][:110] if viol else "")), flush=True)
        if "seeded" in families:
            for d in sorted(glob.glob(os.path.join(ROOT, "seeded", "*", "patch.diff"))):
                sid = os.path.basename(os.path.dirname(d))
                meta = json.load(open(os.path.join(os.path.dirname(d), "meta.json")))
                prop = meta["property"]
                if only and prop not in only:
                    continue
                r = sh("git -C %s apply %s" % (REPO, d))
                if r.returncode != 0:
                    results.append({"kind": "seeded", "name": sid, "property": prop, "applied": False, "note": r.stderr[-200:]})
                    sh("git -C %s checkout -- ." % REPO)
                    continue
                code, viol, wall = run_check(prop)
                extra = {}
                for other in meta.get("also_run", []):
                    c2, v2, _w = run_check(other)
                    extra[other] = {"exit": c2, "violations": v2}
                sh("git -C %s checkout -- ." % REPO)
                results.append({"kind": "seeded", "name": sid, "property": prop, "applied": True, "exit": code, "caught": code == 1, "violations": viol, "wall_s": round(wall, 1), "also": extra})
                print("%-40s %-4s exit=%s %s" % ("seeded/" + sid, prop, code, (viol[0][:110] if viol else "")), flush=True)
    finally:
        sh("git -C %s worktree remove --force %s" % (SRC_REPO, REPO))
        sh("rm -rf %s %s" % (REPO, SCRATCH))
        sh("git -C %s worktree prune" % SRC_REPO)
    os.makedirs(os.path.join(ROOT, "seeded"), exist_ok=True)
    path = os.path.join(ROOT, "seeded", "RESULTS.json")
    old = []
    if os.path.exists(path) and only:
        old = [r for r in json.load(open(path)) if r.get("property") not in only]
    with open(path, "w") as f:
        json.dump(old + results, f, indent=1)
    caught = sum(1 for r in results if r.get("caught"))
    print("mutants: %d applied, %d caught" % (sum(1 for r in results if r.get("applied")), caught))
    return 0
