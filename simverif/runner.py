"""Batch runner: seeds -> scenarios -> simulated runs on a fork pool -> verdict, replay, evidence."""
import concurrent.futures as cf
import hashlib
import json
import multiprocessing as mp
import os
import subprocess
import sys
import time
import traceback

from . import findings as findings_mod
from .kernel import control
from .kernel.draws import Draws, derive_seed
from .minimise import Minimiser

ROOT = os.path.dirname(os.path.dirname(os.path.abspath(__file__)))
# overridable for development tools (mutants pass) so that they never touch the committed evidence
EVIDENCE_DIR = os.environ.get("VERIF_EVIDENCE_DIR") or os.path.join(ROOT, "evidence")
REPLAY_DIR = os.environ.get("VERIF_REPLAY_DIR") or os.path.join(ROOT, "replays")

_PROP = None  # set in the parent before the pool forks


def run_seed_for(master, prop_id, index):
    return derive_seed(master, prop_id, index)


def _short(s, n=8):
    return hashlib.blake2b(str(s).encode(), digest_size=n).hexdigest()


def execute_one(prop, scenario):
    """Execute with watchdog; returns (outcome, error_kind, error_text)."""
    try:
        with control.Watchdog(prop.run_timeout_s):
            out = prop.execute(scenario)
        return out, None, None
    except control.RunTimeout:
        return None, "timeout", "wall-clock watchdog (%.0fs) fired:\n%s" % (prop.run_timeout_s, traceback.format_exc())
    except control.SimControl as e:
        return None, "control", "%s escaped execute():\n%s" % (type(e).__name__, traceback.format_exc())
    except Exception:
        return None, "exception", traceback.format_exc()


_SEQ = []  # indices this worker process has executed so far (a violation that does not reproduce alone is re-tried as a sequence)


def _scenario_for(prop, master, idx, tier):
    rs = run_seed_for(master, prop.id, idx)
    scenario = prop.generate(Draws(rs), idx, tier)
    scenario.setdefault("run_seed", rs)
    scenario.setdefault("index", idx)
    return scenario


def run_sequence(prop, tier, master, indices, target=None, final_scenario=None):
    """Execute the runs `indices` one after the other in THIS process; returns the outcome of the last one (whose scenario may be
    given explicitly, e.g. pinned).  Used from a fresh interpreter: state that the code under test keeps between runs is then
    exactly what a worker process had accumulated."""
    out = None
    for k, idx in enumerate(indices):
        sc = final_scenario if (final_scenario is not None and k == len(indices) - 1) else _scenario_for(prop, master, idx, tier)
        out, ek, et = execute_one(prop, sc)
    return out


def _try_sequence(prop, tier, master, before, idx, target):
    """A violation that does not reproduce when its run is executed alone: replay the runs the worker had executed before it, in a
    fresh interpreter (shortest suffix first).  Returns the list of indices that reproduces it, or None."""
    import subprocess

    for n in (4, 16, 64, len(before)):
        seq = list(before[-n:]) + [idx]
        cmd = [sys.executable, "-B", "-m", "simverif.cli", "sequence", prop.id, tier, str(master), json.dumps(seq), target.oracle, target.sig]
        try:
            r = subprocess.run(cmd, capture_output=True, text=True, timeout=900, env=dict(os.environ, PYTHONHASHSEED="0"))
        except Exception:
            return None
        if "SEQUENCE-REPRODUCED" in r.stdout:
            return seq
        if n >= len(before):
            break
    return None


def _work(task):
    tier, master, indices = task
    prop = _PROP
    res = []
    for idx in indices:
        before = list(_SEQ)
        _SEQ.append(idx)
        rs = run_seed_for(master, prop.id, idx)
        t0 = time.time()
        try:
            scenario = prop.generate(Draws(rs), idx, tier)
            scenario.setdefault("run_seed", rs)
            scenario.setdefault("index", idx)
        except Exception:
            res.append({"index": idx, "error": "generate", "text": traceback.format_exc()})
            continue
        out, ek, et = execute_one(prop, scenario)
        if out is None:
            res.append({"index": idx, "error": ek, "text": et, "scenario": scenario})
            continue
        r = {
            "index": idx,
            "digest": out.digest,
            "evaluations": out.evaluations,
            "nontrivial": [_short(s) for s in out.nontrivial_sigs],
            "interleaving": _short(out.interleaving) if out.interleaving is not None else None,
            "states": [_short(s) for s in out.state_sigs[:2000]],
            "probes": out.probes,
            "faults": out.faults,
            "sim_seconds": out.sim_seconds,
            "steps": out.steps,
            "inconclusive": out.inconclusive,
            "violations": [(v.oracle, v.sig, v.narrative, v.pin) for v in out.violations],
            "wall": time.time() - t0,
        }
        if out.violations or idx < 4:
            r["scenario"] = scenario
        if out.violations:
            r["before"] = before
        if idx < 4 or (out.nontrivial_sigs and idx % 50 == 0):
            r["sample"] = out.sample if out.sample is not None else _compact(scenario)
        res.append(r)
    return res


def _compact(scenario, limit=1500):
    s = json.dumps(scenario, sort_keys=True, default=repr)
    if len(s) <= limit:
        return scenario
    return {"truncated_scenario_json": s[:limit] + "..."}


def repo_head():
    try:
        return subprocess.run(["git", "-C", "/repo", "rev-parse", "--short", "HEAD"], capture_output=True, text=True, timeout=10).stdout.strip()
    except Exception:
        return "unknown"


def write_replay(prop, scenario, violation, digest, tier, minimised=None):
    os.makedirs(REPLAY_DIR, exist_ok=True)
    name = "%s-%s-%s.json" % (prop.id, scenario.get("run_seed", 0), _short(violation.oracle + ":" + violation.sig, 4))
    path = os.path.join(REPLAY_DIR, name)
    doc = {
        "v": 1,
        "property": prop.id,
        "world": prop.world,
        "run_seed": scenario.get("run_seed"),
        "scenario": scenario,
        "violation": violation.to_json(),
        "digest": digest,
        "minimised": minimised or {},
        "repo_head": repo_head(),
        "tier": tier,
    }
    with open(path, "w") as f:
        json.dump(doc, f, indent=1, sort_keys=True, default=repr)
    return path


def replay_file(path, prop_loader):
    with open(path) as f:
        doc = json.load(f)
    prop = prop_loader(doc["property"])
    prop.setup_process()
    if doc.get("sequence"):
        sq = doc["sequence"]
        out = run_sequence(prop, sq["tier"], sq["master"], sq["indices"])
        ek = et = "sequence"
    else:
        out, ek, et = execute_one(prop, doc["scenario"])
    if out is None:
        print("REPLAY-ERROR %s\n%s" % (ek, et))
        return 2
    want = doc["violation"]
    from .props.base import Violation

    target = Violation(want["oracle"], want["signature"])
    hit = [v for v in out.violations if prop.same_class(target, v)]
    print("replay property=%s file=%s" % (prop.id, path))
    print("recorded : %s:%s" % (want["oracle"], want["signature"]))
    for v in out.violations:
        print("observed : %s:%s\n   %s" % (v.oracle, v.sig, v.narrative))
    print("digest recorded=%s observed=%s" % (doc.get("digest"), out.digest))
    if hit:
        same = doc.get("digest") == out.digest
        print("REPRODUCED%s" % ("" if same else " (digest differs: code under test changed or nondeterminism)"))
        print("VIOLATION property=%s replay=%s" % (prop.id, path))
        return 1
    print("NOT-REPRODUCED")
    return 0


def run_check(prop, tier, master_seed, budget_s=None, workers=None, runs=None, verbose=True):
    global _PROP
    t_start = time.time()
    _PROP = prop
    prop.setup_process()
    workers = workers or int(os.environ.get("VERIF_WORKERS", "0")) or min(16, os.cpu_count() or 4)
    n_runs = runs if runs is not None else prop.runs(tier)
    if budget_s is None:
        budget_s = float(os.environ.get("VERIF_BUDGET_S", "0")) or (prop.quick_budget_s if hasattr(prop, "quick_budget_s") and tier == "quick" else (150.0 if tier == "quick" else 1500.0))
    known, fixed = findings_mod.load()

    # ---- fan out ----------------------------------------------------------------------------
    chunk = max(1, prop.chunk)
    tasks = [(tier, master_seed, list(range(i, min(i + chunk, n_runs)))) for i in range(0, n_runs, chunk)]
    results = []
    harness_errors = []
    budget_exhausted = False
    ctx = mp.get_context("fork")
    control.arm_faulthandler(budget_s + 600)
    pool = cf.ProcessPoolExecutor(max_workers=workers, mp_context=ctx)
    try:
        pending = set()
        it = iter(tasks)
        # keep the queue short so that a budget stop does not leave a long tail
        def submit_some():
            nonlocal budget_exhausted
            while len(pending) < workers * 2:
                if time.time() - t_start > budget_s:
                    budget_exhausted = True
                    return
                try:
                    t = next(it)
                except StopIteration:
                    return
                pending.add(pool.submit(_work, t))

        submit_some()
        while pending:
            done, pending = cf.wait(pending, timeout=prop.run_timeout_s * chunk + 120, return_when=cf.FIRST_COMPLETED)
            if not done:
                harness_errors.append("worker made no progress for %.0fs" % (prop.run_timeout_s * chunk + 120))
                break
            for fut in done:
                try:
                    results.extend(fut.result())
                except Exception as e:
                    harness_errors.append("worker failed: %r" % (e,))
            submit_some()
    finally:
        procs = list((getattr(pool, "_processes", None) or {}).values())
        pool.shutdown(wait=False, cancel_futures=True)
        if harness_errors:
            for p in procs:
                try:
                    p.kill()
                except Exception:
                    pass
    control.disarm_faulthandler()
    results.sort(key=lambda r: r["index"])

    # ---- aggregate --------------------------------------------------------------------------
    agg = {
        "runs": 0, "evaluations": 0, "nontrivial": set(), "interleavings": set(), "states": set(),
        "probes": {}, "faults": {}, "sim_seconds": 0.0, "inconclusive": {}, "steps": 0,
        "samples": [], "violations": {}, "digests": {},
    }
    for r in results:
        if "error" in r:
            harness_errors.append("run %d: %s\n%s" % (r["index"], r["error"], r.get("text", "")))
            continue
        agg["runs"] += 1
        agg["evaluations"] += r["evaluations"]
        agg["nontrivial"].update(r["nontrivial"])
        if r["interleaving"] is not None:
            agg["interleavings"].add(r["interleaving"])
        agg["states"].update(r["states"])
        for k, v in r["probes"].items():
            agg["probes"][k] = agg["probes"].get(k, 0) + v
        for k, v in r["faults"].items():
            agg["faults"][k] = agg["faults"].get(k, 0) + v
        agg["sim_seconds"] += r["sim_seconds"]
        agg["steps"] += r.get("steps", 0)
        if r["inconclusive"]:
            agg["inconclusive"][r["inconclusive"]] = agg["inconclusive"].get(r["inconclusive"], 0) + 1
        if "sample" in r and len(agg["samples"]) < 4:
            agg["samples"].append(r["sample"])
        agg["digests"][r["index"]] = r["digest"]
        for (oracle, sig, narr, pin) in r["violations"]:
            agg["violations"].setdefault((oracle, sig), []).append((r["index"], narr, r.get("scenario"), pin, r.get("before") or []))

    # ---- determinism spot check: re-run the first scenarios here, in another process position
    det_checked = det_mismatch = 0
    n_det = 4 if tier == "quick" else 12
    for r in results[: n_det]:
        if "error" in r or "scenario" not in r:
            continue
        out, ek, et = execute_one(prop, r["scenario"])
        det_checked += 1
        if out is None or out.digest != r["digest"]:
            det_mismatch += 1
            harness_errors.append("HARNESS-NONDETERMINISM run %d: digest %s vs %s (%s)" % (r["index"], r["digest"], out.digest if out else ek, (et or "")[:400]))

    # ---- verdicts ---------------------------------------------------------------------------
    from .props.base import Violation

    exit_code = 0
    known_hit = {}
    new_violation_lines = []
    unknown_groups = []
    for (oracle, sig), items in sorted(agg["violations"].items()):
        k = findings_mod.match(known, prop.id, oracle, sig)
        if k is not None:
            known_hit.setdefault(k, []).append(((oracle, sig), len(items)))
        else:
            unknown_groups.append(((oracle, sig), items))
    for k, hits in known_hit.items():
        total = sum(n for _, n in hits)
        print("KNOWN-FINDING: property=%s %s [sig=%s; %d occurrence(s) this run]" % (prop.id, k.text, k.glob, total))
        if os.environ.get("VERIF_DEBUG_KNOWN"):
            for (o, sg), n in hits:
                print("   concrete %s:%s x%d" % (o, sg, n))
    min_budget = 30.0 if tier == "quick" else 180.0
    for gi, ((oracle, sig), items) in enumerate(unknown_groups):
        items = [it for it in items if it[2] is not None]
        if not items:
            harness_errors.append("violation %s:%s without scenario" % (oracle, sig))
            continue
        items.sort(key=lambda it: len(json.dumps(it[2], default=repr)))
        idx, narr, scenario, pin, before = items[0]
        target = Violation(oracle, sig, narr)
        if pin:
            pinned = dict(scenario)
            pinned.update(pin)
            outp, _, _ = execute_one(prop, pinned)
            if outp is not None and any(prop.same_class(target, v) for v in outp.violations):
                scenario = pinned
        # must reproduce here (same process twice) before it is believed
        out, ek, et = execute_one(prop, scenario)
        if out is None or not any(prop.same_class(target, v) for v in out.violations):
            # not alone - but perhaps after the runs the worker had executed before it: the code under test may keep state between
            # runs (a module-level cache).  Replayed in a fresh interpreter; only then is it believed.
            seq = _try_sequence(prop, tier, master_seed, before, idx, target) if before else None
            if seq is None:
                harness_errors.append("HARNESS-NONDETERMINISM: violation %s:%s of run %d did not reproduce (%s)" % (oracle, sig, idx, ek))
                continue
            path = write_replay(prop, scenario, target, None, tier, {"sequence": True})
            with open(path) as f:
                doc = json.load(f)
            doc["sequence"] = {"tier": tier, "master": master_seed, "indices": seq}
            with open(path, "w") as f:
                json.dump(doc, f, indent=1, sort_keys=True, default=repr)
            print("violation %s:%s (run %d, %d occurrence(s))\n   %s\n   (reproduces only after the %d run(s) executed before it in the same process: the code under test keeps state between runs)"
                  % (oracle, sig, idx, len(items), narr, len(seq) - 1))
            line = "VIOLATION property=%s replay=%s" % (prop.id, path)
            print(line)
            new_violation_lines.append(line)
            exit_code = 1
            continue
        before = len(json.dumps(scenario, default=repr))
        if gi < (2 if tier == "quick" else 6):
            m = Minimiser(prop, target, budget_s=min_budget)
            small = m.run(scenario)
            tests = m.tests
        else:
            small, tests = scenario, 0
        out2, _, _ = execute_one(prop, small)
        if out2 is None or not any(prop.same_class(target, v) for v in out2.violations):
            small, out2 = scenario, out
        v2 = [v for v in out2.violations if prop.same_class(target, v)][0]
        after = len(json.dumps(small, default=repr))
        path = write_replay(prop, small, v2, out2.digest, tier, {"json_bytes": [before, after], "tests": tests})
        print("violation %s:%s (run %d, %d occurrence(s))\n   %s" % (oracle, sig, idx, len(items), v2.narrative))
        line = "VIOLATION property=%s replay=%s" % (prop.id, path)
        print(line)
        new_violation_lines.append(line)
        exit_code = 1

    inconclusive_total = sum(agg["inconclusive"].values())
    if agg["runs"] and inconclusive_total > 0.2 * agg["runs"]:
        harness_errors.append("INCONCLUSIVE: %d of %d runs inconclusive: %r" % (inconclusive_total, agg["runs"], agg["inconclusive"]))
    if agg["runs"] == 0:
        harness_errors.append("no run completed")

    wall = time.time() - t_start
    # ---- evidence ---------------------------------------------------------------------------
    probes_zero = [k for k in getattr(prop, "expected_probes", []) if not agg["probes"].get(k)]
    coverage = {
        "evaluations": agg["evaluations"],
        "distinct_nontrivial": len(agg["nontrivial"]),
        "rule": prop.rule,
        "samples": agg["samples"] or [{"note": "no sample recorded"}],
        "runs": agg["runs"],
        "runs_requested": n_runs,
        "budget_exhausted": budget_exhausted,
        "runs_per_hour": int(agg["runs"] / wall * 3600) if wall > 0 else 0,
        "evaluations_per_hour": int(agg["evaluations"] / wall * 3600) if wall > 0 else 0,
        "seeds": {"master": master_seed, "first_index": 0, "last_index": (results[-1]["index"] if results else -1), "derivation": "blake2b(master, property, index)"},
        "sim_seconds": round(agg["sim_seconds"], 3),
        "interpreter_steps": agg["steps"],
        "faults_fired": agg["faults"],
        "distinct_interleavings": len(agg["interleavings"]),
        "distinct_states": len(agg["states"]),
        "probes": agg["probes"],
        "probes_stuck_at_zero": probes_zero,
        "inconclusive": agg["inconclusive"],
        "known_findings_hit": {k.glob: sum(n for _, n in hits) for k, hits in known_hit.items()},
        "unlisted_violation_classes": ["%s:%s" % g[0] for g in unknown_groups],
        "components": prop.components,
        "determinism": {"seeds_checked": det_checked, "mismatches": det_mismatch, "how": "first scenarios re-executed in the parent process and digests compared; full proof: ./check selftest"},
        "exhaustive_parts": prop.exhaustive_parts,
        "workers": workers,
        "repo_head": repo_head(),
        "harness_errors": [h[:600] for h in harness_errors[:5]],
    }
    coverage.update(prop.extra_evidence(agg) or {})
    evidence = {
        "property_id": prop.id,
        "tier": tier,
        "seed": master_seed,
        "level": prop.level,
        "coverage": coverage,
        "assumptions": list(prop.assumptions),
        "wall_s": round(wall, 2),
        "violations": len(unknown_groups),
    }
    os.makedirs(EVIDENCE_DIR, exist_ok=True)
    tmp = os.path.join(EVIDENCE_DIR, ".%s.json.tmp" % prop.id)
    with open(tmp, "w") as f:
        json.dump(evidence, f, indent=1, sort_keys=True, default=repr)
    os.replace(tmp, os.path.join(EVIDENCE_DIR, "%s.json" % prop.id))

    if verbose:
        print("%s %s seed=%d: runs=%d evaluations=%d distinct_nontrivial=%d interleavings=%d states=%d faults=%s wall=%.1fs"
              % (prop.id, tier, master_seed, agg["runs"], agg["evaluations"], len(agg["nontrivial"]), len(agg["interleavings"]), len(agg["states"]), agg["faults"], wall))
        if agg["probes"]:
            print("probes: %s" % json.dumps(agg["probes"], sort_keys=True))
        for k in probes_zero:
            print("WARNING: reach probe stuck at zero: %s" % k)
        if agg["inconclusive"]:
            print("inconclusive: %r" % agg["inconclusive"])
    if harness_errors:
        for h in harness_errors[:10]:
            print("HARNESS-ERROR: %s" % h, file=sys.stderr)
        if exit_code == 0:
            exit_code = 2
    if exit_code == 0:
        print("OK property=%s held on everything explored" % prop.id)
    return exit_code
