"""SimEmbeddingModel: the embedding model peer.

vector = deterministic function of md5(text); latency chosen by the scenario; zero latency when
no simulation is running (LLMRails.__init__ builds indexes in a joined real thread with its own
real loop - that must stay deterministic and fast).
"""
import asyncio
import hashlib
import struct

from nemoguardrails.embeddings.providers import register_embedding_provider
from nemoguardrails.embeddings.providers.base import EmbeddingModel
from nemoguardrails.embeddings.providers.registry import EmbeddingProviderRegistry

DIM = 8


def vec(text, model=None):
    # another model name = another embedding function (the default model "sim" keeps the plain md5 of the text)
    salt = "" if model in (None, "sim") else "\x00" + str(model)
    d = hashlib.md5((text + salt).encode("utf-8", "surrogatepass")).digest()
    vals = struct.unpack(">8H", d)
    # components in (0, 1]; never the zero vector (Annoy angular distance needs a direction)
    return [(v + 1) / 65536.0 for v in vals]


class EmbedWorld:
    """Per-run state the (process-global, cached) model instance reads."""

    def __init__(self, latency_fn=None, on_call=None):
        self.latency_fn = latency_fn  # callable(call_no, texts) -> seconds
        self.on_call = on_call  # callable(call_no, texts, phase)
        self.calls = 0
        self.texts_seen = []
        self.fail_at = None  # set of call numbers at which the model raises (report-only configs)


CURRENT = None  # EmbedWorld of the running simulation, or None


def set_world(w):
    global CURRENT
    CURRENT = w


class SimEmbeddingModel(EmbeddingModel):
    engine_name = "SimEmbed"

    def __init__(self, embedding_model=None, **kwargs):
        self.model = embedding_model
        self.embedding_size = DIM

    async def encode_async(self, documents):
        w = CURRENT
        if w is None or self.model not in (None, "sim"):
            # (a sibling index with a model of its own is not part of the measured schedule)
            return [vec(t, self.model) for t in documents]
        w.calls += 1
        n = w.calls
        docs = list(documents)
        w.texts_seen.append(docs)
        if w.on_call:
            w.on_call(n, docs, "enter")
        lat = w.latency_fn(n, docs) if w.latency_fn else 0.0
        if lat > 0:
            await asyncio.sleep(lat)
        elif lat == 0:
            await asyncio.sleep(0)
        if w.fail_at and n in w.fail_at:
            raise RuntimeError("sim embedding model failure at call %d" % n)
        if w.on_call:
            w.on_call(n, docs, "exit")
        return [vec(t) for t in docs]

    def encode(self, documents):
        return [vec(t, self.model) for t in documents]


def ensure_registered():
    reg = EmbeddingProviderRegistry()
    if "SimEmbed" not in reg.items:
        register_embedding_provider(SimEmbeddingModel)
