"""SimLLM: the LLM peer.

A langchain ``LLM`` with real fields ``temperature``, ``max_tokens`` and ``model_kwargs`` (so that
``llm_params`` takes both of its code paths).  ``_acall``
  (a) records task, prompt, stop, conversation tag and the parameter values at entry, after the
      latency await and at exit;
  (b) awaits a scheduler-chosen latency;
  (c) optionally streams the reply in scheduler-chosen chunks;
  (d) returns ``world.respond(call)``.
The responder is a pure function of (task, prompt) unless a fault replaces the reply at a given
call position (C17).
"""
import asyncio
import contextvars
from typing import Any, Dict, List, Mapping, Optional

from langchain_core.language_models.llms import LLM
from langchain_core.outputs import GenerationChunk

from nemoguardrails.context import llm_call_info_var

# Set by the simulated client around each request: attribution never depends on prompt text.
conv_var = contextvars.ContextVar("simverif_conv", default=None)

DEFAULT_TEMPERATURE = 0.7
DEFAULT_MAX_TOKENS = 256


class LLMCall:
    __slots__ = ("n", "conv", "task", "prompt", "stop", "t_enter", "t_exit", "params_enter", "params_mid", "params_exit", "reply", "faulted")

    def __init__(self):
        self.faulted = False

    def brief(self):
        return {"n": self.n, "conv": self.conv, "task": self.task, "t": [self.t_enter, self.t_exit], "params": [self.params_enter, self.params_mid, self.params_exit], "reply": (self.reply or "")[:80]}


class LLMWorld:
    """Per-run state of the LLM peer."""

    def __init__(self, responder, latency_fn=None, chunker=None, clock=None, buggify=None):
        self.responder = responder  # callable(call) -> str
        self.latency_fn = latency_fn or (lambda call: 0.0)
        self.chunker = chunker  # callable(call, text) -> list[str]
        self.clock = clock or (lambda: 0.0)
        self.calls: List[LLMCall] = []
        self.in_flight = 0
        self.max_in_flight = 0
        self.overlaps = []  # (call_a, call_b) pairs whose [enter, exit] intervals overlapped
        self.buggify = buggify or set()
        self.on_call = None
        self.fault_fn = None  # callable(call) -> Optional[str]: replacement reply (peer_garbage)
        self.active = []


def _task_name():
    info = llm_call_info_var.get()
    t = getattr(info, "task", None) if info is not None else None
    return t or "unknown"


CURRENT_WORLD = None  # used by provider-built instances (server world), which get no world argument


def set_current_world(w):
    global CURRENT_WORLD
    CURRENT_WORLD = w


class SimLLM(LLM):
    temperature: float = DEFAULT_TEMPERATURE
    max_tokens: int = DEFAULT_MAX_TOKENS
    model_kwargs: Dict[str, Any] = {}
    streaming: bool = False
    world: Any = None
    model: str = "sim"

    @property
    def _llm_type(self) -> str:
        return "simllm"

    @property
    def _identifying_params(self) -> Mapping[str, Any]:
        return {}

    def _params(self):
        return {"temperature": self.temperature, "max_tokens": self.max_tokens, "model_kwargs": dict(self.model_kwargs)}

    def _call(self, prompt, stop=None, run_manager=None, **kwargs):
        w = self.world or CURRENT_WORLD
        call = self._new_call(w, prompt, stop)
        call.params_mid = call.params_exit = call.params_enter
        call.t_exit = call.t_enter
        call.reply = self._reply(w, call)
        return call.reply

    def _new_call(self, w, prompt, stop):
        call = LLMCall()
        call.n = len(w.calls)
        call.conv = conv_var.get()
        call.task = _task_name()
        call.prompt = prompt
        call.stop = list(stop) if stop else None
        call.t_enter = w.clock()
        call.params_enter = self._params()
        call.reply = None
        w.calls.append(call)
        return call

    def _reply(self, w, call):
        if w.fault_fn is not None:
            r = w.fault_fn(call)
            if r is not None:
                call.faulted = True
                return r
        return w.responder(call)

    async def _acall(self, prompt, stop=None, run_manager=None, **kwargs):
        w = self.world or CURRENT_WORLD
        if "pre_params_yield" in w.buggify:
            await asyncio.sleep(0)
        call = self._new_call(w, prompt, stop)
        for other in w.active:
            w.overlaps.append((other.n, call.n))
        w.active.append(call)
        w.max_in_flight = max(w.max_in_flight, len(w.active))
        if w.on_call:
            w.on_call("enter", call)
        try:
            lat = w.latency_fn(call)
            if lat and lat > 0:
                await asyncio.sleep(lat)
            else:
                await asyncio.sleep(0)
            call.params_mid = self._params()
            reply = self._reply(w, call)
            call.reply = reply
            if self.streaming and run_manager is not None and reply:
                chunks = w.chunker(call, reply) if w.chunker else [reply]
                gap_fn = getattr(w, "chunk_gap_fn", None)
                for i, ch in enumerate(chunks):
                    if gap_fn is not None and i:
                        g = gap_fn(call, i)
                        if g:
                            await asyncio.sleep(g)
                    await run_manager.on_llm_new_token(token=ch, chunk=GenerationChunk(text=ch))
            if "pre_return_yield" in w.buggify:
                await asyncio.sleep(0)
            call.params_exit = self._params()
            call.t_exit = w.clock()
            if w.on_call:
                w.on_call("exit", call)
            return reply
        finally:
            if call in w.active:
                w.active.remove(call)
            if getattr(call, "t_exit", None) is None:
                call.t_exit = w.clock()
                call.params_mid = getattr(call, "params_mid", None)
                call.params_exit = None


def make_llm(world, streaming=False):
    return SimLLM(world=world, streaming=streaming, model_kwargs={})
