"""Minimisation of a failing scenario while the same violation class persists.

Generic part: ddmin over the lists named by ``prop.ddmin_paths`` (paths may contain ``*`` to fan
out over list/dict members).  Property-specific part: ``prop.shrink(scenario)`` candidates.
Both are repeated to a fixed point under a wall-clock cap.
"""
import copy
import time


def _get(obj, path):
    for k in path:
        obj = obj[k]
    return obj


def _set(obj, path, value):
    for k in path[:-1]:
        obj = obj[k]
    obj[path[-1]] = value


def _expand(scenario, path):
    """Expand '*' wildcards into concrete paths that exist in the scenario."""
    paths = [()]
    for k in path:
        nxt = []
        for p in paths:
            try:
                cur = _get(scenario, p)
            except (KeyError, IndexError, TypeError):
                continue
            if k == "*":
                if isinstance(cur, list):
                    nxt.extend(p + (i,) for i in range(len(cur)))
                elif isinstance(cur, dict):
                    nxt.extend(p + (kk,) for kk in sorted(cur))
            else:
                if (isinstance(cur, dict) and k in cur) or (isinstance(cur, list) and isinstance(k, int) and k < len(cur)):
                    nxt.append(p + (k,))
        paths = nxt
    return [p for p in paths if isinstance(_safe_get(scenario, p), list)]


def _safe_get(obj, path):
    try:
        return _get(obj, path)
    except (KeyError, IndexError, TypeError):
        return None


class Minimiser:
    def __init__(self, prop, violation, budget_s=60.0, max_tests=400):
        self.prop = prop
        self.target = violation
        self.deadline = time.time() + budget_s
        self.tests = 0
        self.max_tests = max_tests

    def still_fails(self, scenario):
        if time.time() > self.deadline or self.tests >= self.max_tests:
            return None
        self.tests += 1
        try:
            out = self.prop.execute(scenario)
        except BaseException:
            return None
        for v in out.violations:
            if self.prop.same_class(self.target, v):
                return v
        return None

    def ddmin_list(self, scenario, path):
        items = list(_get(scenario, path))
        n = 2
        changed = False
        while len(items) >= 1 and time.time() < self.deadline:
            chunk = max(1, len(items) // n)
            reduced = False
            i = 0
            while i < len(items):
                cand_items = items[:i] + items[i + chunk:]
                cand = copy.deepcopy(scenario)
                _set(cand, path, cand_items)
                if self.still_fails(cand) is not None:
                    items = cand_items
                    scenario = cand
                    reduced = True
                    changed = True
                    n = max(n - 1, 2)
                else:
                    i += chunk
            if not reduced:
                if chunk == 1:
                    break
                n = min(len(items), n * 2)
        return scenario, changed

    def run(self, scenario):
        scenario = copy.deepcopy(scenario)
        for _round in range(6):
            changed = False
            for path in self.prop.ddmin_paths:
                for p in _expand(scenario, tuple(path)):
                    if _safe_get(scenario, p) is None:
                        continue
                    scenario, ch = self.ddmin_list(scenario, p)
                    changed = changed or ch
            # property-specific candidates: take the first that still fails, repeat
            progress = True
            while progress and time.time() < self.deadline:
                progress = False
                for cand in self.prop.shrink(scenario):
                    if self.still_fails(cand) is not None:
                        scenario = cand
                        progress = True
                        changed = True
                        break
            if not changed or time.time() > self.deadline:
                break
        return scenario
