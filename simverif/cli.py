"""./check <ID> --tier quick|thorough | ./check replay <file> | ./check selftest [--tiny] | ./check list"""
import argparse
import importlib
import os
import sys

CLAIMED = ["C01", "C02", "C03", "C05", "C06", "C07", "C09", "C10", "C11", "C14", "C15", "C16", "C17", "C18", "C19", "C20"]


def load_prop(pid):
    mod = importlib.import_module("simverif.props.%s" % pid.lower())
    return mod.PROP


def main(argv=None):
    argv = list(sys.argv[1:] if argv is None else argv)
    if not argv:
        print(__doc__)
        return 2
    cmd = argv[0]
    if cmd == "replay":
        from . import runner

        return runner.replay_file(argv[1], load_prop)
    if cmd == "sequence":
        # internal: ./check sequence <ID> <tier> <master> <json indices> <oracle> <sig> - runs executed one after the other in this
        # fresh interpreter; reports whether the last one shows the violation class
        import json

        from . import runner
        from .props.base import Violation

        prop = load_prop(argv[1].upper())
        prop.setup_process()
        out = runner.run_sequence(prop, argv[2], int(argv[3]), json.loads(argv[4]))
        target = Violation(argv[5], argv[6])
        hit = out is not None and any(prop.same_class(target, v) for v in out.violations)
        print("SEQUENCE-REPRODUCED" if hit else "SEQUENCE-NOT-REPRODUCED")
        return 1 if hit else 0
    if cmd == "selftest":
        from . import selftest

        return selftest.main(argv[1:])
    if cmd == "mutants":
        from . import mutants

        return mutants.main(argv[1:])
    if cmd == "manifest":
        from . import manifest

        return manifest.main()
    if cmd == "list":
        for p in CLAIMED:
            print(p)
        return 0
    ap = argparse.ArgumentParser()
    ap.add_argument("prop")
    ap.add_argument("--tier", default=os.environ.get("VERIF_TIER", "quick"), choices=["quick", "thorough"])
    ap.add_argument("--runs", type=int, default=None)
    ap.add_argument("--workers", type=int, default=None)
    ap.add_argument("--budget", type=float, default=None)
    ap.add_argument("--seed", type=int, default=None)
    a = ap.parse_args(argv)
    seed = a.seed if a.seed is not None else int(os.environ.get("VERIF_SEED", "0") or 0)
    from . import runner

    prop = load_prop(a.prop.upper())
    return runner.run_check(prop, a.tier, seed, budget_s=a.budget, workers=a.workers, runs=a.runs)


if __name__ == "__main__":
    sys.exit(main())
