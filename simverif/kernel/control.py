"""Control signals of the simulator.

They derive from BaseException on purpose: the code under test has broad
``except Exception`` handlers exactly where the simulator needs to get out
(statemachine._advance_head_front, RuntimeV2_x.process_events, eval_expression,
ActionDispatcher.execute_action).  A control signal must never be converted into a
ColangError event or an "internal error" bot message by the system under test.
"""
import faulthandler
import signal
import sys


class SimControl(BaseException):
    """Base of all simulator control signals."""


class StepBudgetExceeded(SimControl):
    """More internal steps than the bound allows (bounded liveness verdicts)."""


class SimDeadlock(SimControl):
    """Nothing ready, nothing scheduled, but the driven future is not done."""

    def __init__(self, msg="deadlock", parked=None):
        super().__init__(msg)
        self.parked = parked or []


class RunTimeout(SimControl):
    """Wall-clock watchdog of one simulated run (backstop, harness-level)."""


class SimUnsupported(SimControl):
    """The system tried to use something the simulation does not own (real thread, socket)."""


class HarnessError(Exception):
    """The machinery itself is broken (seam probe failed, nondeterminism...). Exit code 2."""


def _alarm_handler(signum, frame):
    raise RunTimeout("wall-clock watchdog fired")


class Watchdog:
    """SIGALRM-based watchdog. Nestable: an inner watchdog re-arms the outer one on exit.
    Only usable in the main thread of a process."""

    def __init__(self, seconds):
        self.seconds = seconds

    def __enter__(self):
        import time as _t

        self._t0 = _t.time()
        self._old = signal.signal(signal.SIGALRM, _alarm_handler)
        self._old_timer = signal.setitimer(signal.ITIMER_REAL, self.seconds)
        return self

    def __exit__(self, *exc):
        import time as _t

        signal.setitimer(signal.ITIMER_REAL, 0)
        signal.signal(signal.SIGALRM, self._old)
        remaining, _interval = self._old_timer
        if remaining and remaining > 0:
            left = max(0.001, remaining - (_t.time() - self._t0))
            signal.setitimer(signal.ITIMER_REAL, left)
        return False


class WorkBudget:
    """Deterministic bound on the CPU work of a piece of synchronous code (bounded liveness without a
    wall clock): counts function entries and jumps (every Python-level loop iteration ends in one)
    through sys.monitoring and raises StepBudgetExceeded past `budget`.  Unlike a SIGALRM timeout
    the verdict does not depend on machine load.  Loops inside C code (e.g. a regex that
    backtracks forever) are not seen; the wall-clock Watchdog stays as the backstop for those."""

    TOOL = 4

    def __init__(self, budget, jumps=True):
        self.budget = budget
        self.initial = budget
        self.jumps = jumps
        self.n = 0
        self.fired = 0

    def __enter__(self):
        mon = sys.monitoring
        mon.use_tool_id(self.TOOL, "simverif-workbudget")
        ev = mon.events

        def exceeded():
            # keep counting: when several tasks spin, each of them has to be stopped in turn; the code that unwinds gets
            # a tenth of the budget before the signal is raised again
            self.fired += 1
            self.budget = self.n + max(1000, self.initial // 10)
            raise StepBudgetExceeded("work budget of %d function entries + jumps exceeded" % self.initial)

        def on_start(code, offset):
            self.n += 1
            if self.n > self.budget:
                exceeded()

        def on_jump(code, offset, dest):
            self.n += 1
            if self.n > self.budget:
                exceeded()

        mon.register_callback(self.TOOL, ev.PY_START, on_start)
        mon.register_callback(self.TOOL, ev.JUMP, on_jump)
        mon.set_events(self.TOOL, ev.PY_START | (ev.JUMP if self.jumps else 0))
        return self

    def __exit__(self, *exc):
        mon = sys.monitoring
        mon.set_events(self.TOOL, 0)
        mon.register_callback(self.TOOL, mon.events.PY_START, None)
        mon.register_callback(self.TOOL, mon.events.JUMP, None)
        mon.free_tool_id(self.TOOL)
        return False


def arm_faulthandler(seconds):
    """Dump all tracebacks if the process is still alive after `seconds` (hang diagnosis)."""
    faulthandler.enable(file=sys.stderr)
    faulthandler.dump_traceback_later(seconds, repeat=False, file=sys.stderr)


def disarm_faulthandler():
    faulthandler.cancel_dump_traceback_later()
