"""SimLoop: an asyncio event loop on virtual time.

* ``time()`` is a virtual clock.
* The ready queue runs FIFO exactly as real asyncio does (BaseEventLoop._run_once is reused).
* When nothing is ready the clock jumps to the earliest timer: no real sleeping, no selector.
* When nothing is ready and nothing is scheduled while the driven future is not done, the loop
  raises SimDeadlock (a BaseException) naming the parked tasks.
* ``run_in_executor`` raises SimUnsupported: a real thread must never take part in a run.
* Timers that fall on exactly the same virtual deadline may be ordered by the scheduler
  (real asyncio compares TimerHandles by deadline only, so either order is legal): a keyed
  sub-nanosecond jitter is added to the deadline when ``tie_jitter`` is set.
"""
import asyncio
import asyncio.base_events
import heapq

from .control import SimDeadlock, SimUnsupported


class _SimSelector:
    """Stands in for the selector: 'waiting' means jumping the virtual clock."""

    def __init__(self, loop):
        self._loop = loop

    def select(self, timeout=None):
        loop = self._loop
        if timeout is None:
            # nothing ready, nothing scheduled
            raise SimDeadlock("nothing ready and nothing scheduled", loop.parked_tasks())
        if timeout > 0:
            # jump exactly to the earliest deadline (no float drift)
            sched = loop._scheduled
            if sched:
                when = sched[0]._when
                if when > loop._vtime:
                    loop._vtime = when
                    loop.clock_jumps += 1
            else:  # pragma: no cover - timeout>0 implies scheduled
                loop._vtime += timeout
        return []

    def close(self):
        pass


class SimLoop(asyncio.base_events.BaseEventLoop):
    def __init__(self, start_time=1_000_000.0, tie_jitter=None, max_iterations=None):
        super().__init__()
        self._vtime = float(start_time)
        self._clock_resolution = 1e-9
        self._selector = _SimSelector(self)
        self.tie_jitter = tie_jitter  # callable(when, seq) -> float in [0, 1e-7)
        self._timer_seq = 0
        self.clock_jumps = 0
        self.iterations = 0
        self.max_iterations = max_iterations
        self.unhandled = []  # exceptions reported to the loop exception handler
        self.set_exception_handler(self._on_unhandled)

    # -- clock ------------------------------------------------------------------------
    def time(self):
        return self._vtime

    def advance(self, seconds):
        """Clock jump injected by the harness (fault: clock_jump)."""
        self._vtime += seconds

    # -- plumbing BaseEventLoop expects ---------------------------------------------------
    def _process_events(self, event_list):
        pass

    def _write_to_self(self):
        pass

    def _run_once(self):
        self.iterations += 1
        if self.max_iterations is not None and self.iterations > self.max_iterations:
            from .control import StepBudgetExceeded

            raise StepBudgetExceeded("event loop iterations > %d" % self.max_iterations)
        super()._run_once()

    def call_at(self, when, callback, *args, context=None):
        if self.tie_jitter is not None:
            self._timer_seq += 1
            when = when + self.tie_jitter(when, self._timer_seq)
        return super().call_at(when, callback, *args, context=context)

    def run_in_executor(self, executor, func, *args):
        raise SimUnsupported("run_in_executor(%r) inside a simulated run" % (getattr(func, "__name__", func),))

    def _on_unhandled(self, loop, context):
        exc = context.get("exception")
        self.unhandled.append((context.get("message"), repr(exc)))

    def parked_tasks(self):
        out = []
        try:
            for t in asyncio.all_tasks(self):
                if not t.done():
                    coro = t.get_coro()
                    frames = []
                    # walk the await chain
                    c = coro
                    depth = 0
                    while c is not None and depth < 30:
                        fr = getattr(c, "cr_frame", None) or getattr(c, "gi_frame", None)
                        if fr is not None:
                            frames.append("%s:%d" % (fr.f_code.co_name, fr.f_lineno))
                        c = getattr(c, "cr_await", None) or getattr(c, "gi_yieldfrom", None)
                        depth += 1
                    out.append(" > ".join(frames))
        except Exception as e:  # pragma: no cover
            out.append("<%r>" % (e,))
        return sorted(out)

    def close(self):
        if self.is_closed():
            return
        super().close()


def run_sim(coro_fn, *, start_time=1_000_000.0, tie_jitter=None, max_iterations=2_000_000):
    """Run ``coro_fn(loop)`` to completion on a fresh SimLoop; returns (result, loop).

    All remaining tasks are cancelled and drained afterwards so that no state leaks into
    the next run in the same process.
    """
    loop = SimLoop(start_time=start_time, tie_jitter=tie_jitter, max_iterations=max_iterations)
    try:
        asyncio.set_event_loop(loop)
        try:
            result = loop.run_until_complete(coro_fn(loop))
        finally:
            _drain(loop)
        return result, loop
    finally:
        asyncio.set_event_loop(None)
        try:
            loop.close()
        except BaseException:
            pass


def _drain(loop):
    try:
        pending = [t for t in asyncio.all_tasks(loop) if not t.done()]
        if not pending:
            return
        for t in pending:
            t.cancel()
        loop.max_iterations = None

        async def _gather():
            await asyncio.gather(*pending, return_exceptions=True)

        try:
            loop.run_until_complete(_gather())
        except BaseException:
            pass
    except BaseException:
        pass
