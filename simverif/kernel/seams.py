"""Seams: every source of nondeterminism in /repo that a run depends on, owned by the simulator.

All seams are module attributes, registries or constructor arguments - no hook in /repo.
``install(ctx)`` patches, ``probe()`` verifies each patched name returns the simulated value
(otherwise HarnessError: a refactor silently bypassing a seam must not weaken a check),
``uninstall()`` restores.
"""
import datetime as _dt
import random as _random
import sys
import time as _time

from .control import HarnessError

EPOCH_BASE = 1_700_000_000.0  # virtual time 0 == this unix time


class SimContext:
    """What the seams read: a clock function, a tie-break chooser and a uuid counter."""

    def __init__(self, clock=None, chooser=None):
        self._clock = clock or (lambda: 0.0)
        self.chooser = chooser  # callable(site, seq) -> element
        self.uuid_counter = 0
        self.choice_log = []

    def set_clock(self, clock):
        self._clock = clock

    def now(self):
        return self._clock()

    def unix_now(self):
        return EPOCH_BASE + self._clock()


_ctx = SimContext()
_installed = []


def current():
    return _ctx


class SimUUIDRandom:
    """Stands in for nemoguardrails.utils.secure_random: deterministic, per-run counter."""

    def getrandbits(self, k):
        _ctx.uuid_counter += 1
        # spread the counter so that uuids do not share long prefixes (some code uses uid[0:4])
        x = (_ctx.uuid_counter * 0x9E3779B97F4A7C15F39CC0605CEDC835) & ((1 << 128) - 1)
        # keep the counter recoverable and unique: low 32 bits hold it
        x = (x & ~0xFFFFFFFF) | (_ctx.uuid_counter & 0xFFFFFFFF)
        return x & ((1 << k) - 1)

    def choice(self, seq):
        return _choose("secure_random.choice", seq)

    def random(self):
        return 0.5


class SimRandomProxy:
    """Stands in for the ``random`` module attribute of a repo module; only choice() is
    decided by the scheduler, everything else is delegated to a fixed-seed generator."""

    def __init__(self, site):
        self._site = site
        self._rng = _random.Random(0)

    def choice(self, seq):
        return _choose(self._site, seq)

    def __getattr__(self, name):
        return getattr(self._rng, name)


def _choose(site, seq):
    seq = list(seq)
    if _ctx.chooser is None:
        pick = 0
    else:
        pick = _ctx.chooser(site, len(seq))
    _ctx.choice_log.append((site, len(seq), pick))
    return seq[pick]


class _SimDateTimeMeta(type):
    def __instancecheck__(cls, inst):
        return isinstance(inst, _dt.datetime)


class SimDateTime(_dt.datetime, metaclass=_SimDateTimeMeta):
    """datetime whose now() reads the virtual clock. Instances returned are plain datetimes."""

    @classmethod
    def now(cls, tz=None):
        return _dt.datetime.fromtimestamp(_ctx.unix_now(), tz)

    @classmethod
    def utcnow(cls):
        return _dt.datetime.utcfromtimestamp(_ctx.unix_now())


def sim_time():
    return _ctx.unix_now()


class SimTimeModule:
    """Stands in for the ``time`` module attribute of a repo module."""

    def time(self):
        return _ctx.unix_now()

    def monotonic(self):
        return _ctx.now()

    def perf_counter(self):
        return _ctx.now()

    def sleep(self, s):  # a real sleep inside a simulated run would break replay
        raise HarnessError("time.sleep(%r) called inside a simulated run" % (s,))

    def __getattr__(self, name):
        return getattr(_time, name)


def _patch(modname, attr, value, required=True):
    mod = sys.modules.get(modname)
    if mod is None:
        __import__(modname)
        mod = sys.modules[modname]
    if not hasattr(mod, attr):
        if required:
            raise HarnessError("seam %s.%s does not exist any more" % (modname, attr))
        return
    _installed.append((mod, attr, getattr(mod, attr)))
    setattr(mod, attr, value)


def install(ctx=None, v1=True, v2=True, rails=True):
    """Install all seams. Idempotent per call pair install/uninstall."""
    global _ctx
    if _installed:
        uninstall()
    if ctx is not None:
        _ctx = ctx
    _patch("nemoguardrails.utils", "secure_random", SimUUIDRandom())
    _patch("nemoguardrails.utils", "datetime", SimDateTime)
    if v2:
        _patch("nemoguardrails.colang.v2_x.runtime.statemachine", "random", SimRandomProxy("statemachine"))
        _patch("nemoguardrails.colang.v2_x.runtime.statemachine", "datetime", SimDateTime)
        _patch("nemoguardrails.colang.v2_x.runtime.flows", "datetime", SimDateTime)
    if v1:
        _patch("nemoguardrails.colang.v1_0.runtime.flows", "time", sim_time)
        _patch("nemoguardrails.colang.v1_0.runtime.runtime", "time", sim_time)
    if rails:
        _patch("nemoguardrails.actions.llm.generation", "random", SimRandomProxy("generation"))
        _patch("nemoguardrails.actions.llm.generation", "time", sim_time)
        _patch("nemoguardrails.logging.callbacks", "time", sim_time)
        _patch("nemoguardrails.rails.llm.llmrails", "time", SimTimeModule())
        _patch("nemoguardrails.kb.kb", "time", sim_time, required=False)
    return _ctx


def uninstall():
    while _installed:
        mod, attr, old = _installed.pop()
        setattr(mod, attr, old)


def probe():
    """Every patched name must return the simulated value."""
    import nemoguardrails.utils as u

    before = _ctx.uuid_counter
    a = u.new_uuid()
    if _ctx.uuid_counter != before + 1:
        raise HarnessError("uuid seam bypassed")
    _ctx.uuid_counter = before
    if a != u.new_uuid():
        raise HarnessError("uuid seam not deterministic")
    _ctx.uuid_counter = before
    ev = u.new_event_dict("X")
    _ctx.uuid_counter = before
    want = _dt.datetime.fromtimestamp(_ctx.unix_now(), _dt.timezone.utc).isoformat()
    if ev.get("event_created_at") != want:
        raise HarnessError("datetime seam in nemoguardrails.utils bypassed: %r != %r" % (ev.get("event_created_at"), want))
    import nemoguardrails.colang.v2_x.runtime.statemachine as sm

    if "nemoguardrails.colang.v2_x.runtime.statemachine" in [m.__name__ for m, _, _ in _installed]:
        n = len(_ctx.choice_log)
        old = _ctx.chooser
        _ctx.chooser = lambda site, k: k - 1
        try:
            if sm.random.choice([1, 2, 3]) != 3:
                raise HarnessError("tie-break seam bypassed")
        finally:
            _ctx.chooser = old
            del _ctx.choice_log[n:]
        if sm.datetime.now().timestamp() != _dt.datetime.fromtimestamp(_ctx.unix_now()).timestamp():
            raise HarnessError("statemachine clock seam bypassed")
    return True


def reset_run_state(ctx=None):
    """Per-run reset of counters (uuid, choice log)."""
    global _ctx
    if ctx is not None:
        _ctx = ctx
    _ctx.uuid_counter = 0
    _ctx.choice_log = []
    return _ctx
