"""Event log of one simulated run and its digest.

Logging never draws from the PRNG and never reads a real clock.
"""
import hashlib
import json


def _norm(x):
    if isinstance(x, float):
        return round(x, 9)
    if isinstance(x, (list, tuple)):
        return [_norm(i) for i in x]
    if isinstance(x, dict):
        return {str(k): _norm(v) for k, v in sorted(x.items(), key=lambda kv: str(kv[0]))}
    if isinstance(x, (set, frozenset)):
        return sorted(_norm(i) for i in x)
    if isinstance(x, (str, int, bool)) or x is None:
        return x
    return repr(x)


class Trace:
    def __init__(self, seed=None, keep=True):
        self.events = []
        self.keep = keep
        self._h = hashlib.sha256()
        self.n = 0
        if seed is not None:
            self.log("seed", seed)

    def log(self, kind, *fields):
        rec = [kind] + [_norm(f) for f in fields]
        line = json.dumps(rec, sort_keys=True, ensure_ascii=True, separators=(",", ":"))
        self._h.update(line.encode())
        self._h.update(b"\n")
        self.n += 1
        if self.keep:
            self.events.append(rec)

    def digest(self):
        return self._h.hexdigest()[:32]

    def tail(self, n=40):
        return self.events[-n:]
