"""Keyed pseudo-random draws.

No PRNG state is shared inside a run: every decision is a pure function
``draw(run_seed, key)``.  Deleting an operation while minimising therefore does not
shift any other draw.  ``overrides`` (from a replay file) pin individual decisions.
"""
import hashlib
import struct


def _h(seed, key):
    data = repr((seed, key)).encode("utf-8", "surrogatepass")
    return hashlib.blake2b(data, digest_size=16).digest()


def derive_seed(*parts):
    """Derive an integer seed from parts (master seed, property id, run index ...)."""
    return int.from_bytes(_h("derive", parts)[:8], "big")


def key_str(key):
    if isinstance(key, tuple):
        return "/".join(str(k) for k in key)
    return str(key)


class Draws:
    def __init__(self, seed, overrides=None, record=False):
        self.seed = seed
        self.overrides = dict(overrides or {})
        self.log = [] if record else None
        self.used = {}  # key_str -> value, every decision actually taken (for minimiser)

    # -- primitives -------------------------------------------------------------------
    def u64(self, *key):
        return int.from_bytes(_h(self.seed, key)[:8], "big")

    def _decide(self, key, value_fn, valid=None):
        ks = key_str(key)
        if ks in self.overrides:
            v = self.overrides[ks]
            if valid is None or valid(v):
                self.used[ks] = v
                return v
        v = value_fn()
        self.used[ks] = v
        return v

    def randint(self, lo, hi, *key):
        """Integer in [lo, hi]."""
        return self._decide(
            key, lambda: lo + self.u64(*key) % (hi - lo + 1), lambda v: isinstance(v, int) and lo <= v <= hi
        )

    def index(self, n, *key):
        """Index in [0, n)."""
        if n <= 1:
            return 0
        return self._decide(key, lambda: self.u64(*key) % n, lambda v: isinstance(v, int) and 0 <= v < n)

    def choice(self, seq, *key):
        return seq[self.index(len(seq), *key)]

    def unit(self, *key):
        return self.u64(*key) / 2.0**64

    def chance(self, p, *key):
        return bool(self._decide(key, lambda: self.unit(*key) < p, lambda v: isinstance(v, (bool, int))))

    def weighted(self, items, *key):
        """items: list of (value, weight)."""
        total = sum(w for _, w in items)
        def pick():
            r = self.unit(*key) * total
            acc = 0.0
            for i, (_, w) in enumerate(items):
                acc += w
                if r < acc:
                    return i
            return len(items) - 1
        i = self._decide(key, pick, lambda v: isinstance(v, int) and 0 <= v < len(items))
        return items[i][0]

    def shuffle(self, seq, *key):
        """Return a permuted copy (Fisher-Yates with keyed draws)."""
        out = list(seq)
        for i in range(len(out) - 1, 0, -1):
            j = self.u64(*key, "shuf", i) % (i + 1)
            out[i], out[j] = out[j], out[i]
        return out

    def sample(self, seq, k, *key):
        return self.shuffle(seq, *key)[:k]

    def sub(self, *prefix):
        """A child stream with an independent seed (for nested generators)."""
        return Draws(derive_seed(self.seed, *prefix), None)


# Latency grid: contains the system's own constants so that boundaries and exact ties are hit.
LATENCY_GRID = (0.0, 0.0, 0.001, 0.001, 0.002, 0.005, 0.01, 0.01, 0.05, 0.25, 1.0, 4.9, 5.1, 30.0)
SHORT_GRID = (0.0, 0.001, 0.002, 0.005, 0.01, 0.02, 0.05)
