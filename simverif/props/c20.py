"""C20 - the server loads configurations only from inside its root; threads keep the exact history.

World SERVER: the real route coroutine ``nemoguardrails.server.api.chat_completion`` awaited on
SimLoop with a pydantic RequestBody; SimDataStore with latencies; SimLLM registered as provider;
``RailsConfig.from_path`` wrapped to record every path; a scratch config root with decoys outside."""
import asyncio
import contextlib
import copy
import io
import json
import logging
import os
import shutil
import tempfile

from ..kernel import control, seams
from ..kernel.draws import SHORT_GRID, Draws
from ..kernel.loop import run_sim
from ..kernel.trace import Trace
from ..peers import embed as embed_peer
from ..peers import llm as llm_peer
from .base import Outcome, Prop

CONFIG_YML = ("models:\n  - type: main\n    engine: simllm\n    model: sim\n  - type: embeddings\n    engine: SimEmbed\n    model: sim\n")
FIXED_TMPL = "Could not load the %s guardrails configuration. An internal error has occurred."

VALID_IDS = ["cfgA", "cfgB", "CfgA", "cfgS"]  # cfgS: a configuration with `streaming: True` (requests may then ask for a streamed reply)  # CfgA: a different configuration whose name differs from cfgA only by case
HOSTILE_IDS = [
    "..", "../outside", "../root2/cfgX", "cfgA/../../outside", "cfgA/..", "/etc", "/dev/shm", "..\\outside", "cfgA\\..\\..\\outside", "....//outside", "%2e%2e%2foutside", "%2e%2e/outside",
    "．．/outside", "..／outside", "‥/outside", ".", "", " ", "cfgA/", "./cfgA", "cfgA\x00", "\x00", "nonexistent", "root2", "_hidden", ".dot", "file.txt", "cfgA" + "a" * 300, "CFGA", "cfgA ", "~", "$HOME",
    "cfgA;cfgB", "cfgA-cfgB", "*", "cfg?",
]
# ids that need the location of the scratch tree: @R@ = the root's absolute path, @B@ = its parent.  `@R@2/...` is the
# sibling decoy whose absolute path has the root's path as a *string* prefix.
HOSTILE_ABS_IDS = ["@R@2/cfgX", "@R@2", "@B@/outside", "@R@/../outside", "@R@/../root2/cfgX", "@R@/cfgA", "@R@", "@R@/", "@R@2/../root2/cfgX", "@R@/cfgA/../../root2/cfgX", "@B@/root/cfgB", "/@R@2/cfgX",
                   "cfgA/../cfgB", "./cfgB", "cfgB/.", "_hidden/../cfgA"]
THREADS = ["thread-aaaaaaaaaaaa-1", "thread-aaaaaaaaaaaa-2", "thread-bbbbbbbbbbbbbbbb"]


class SimDataStore:
    def __init__(self, world):
        self.world = world
        self.data = {}
        self.ops = []

    async def get(self, key):
        lat = self.world.store_latency("get", len(self.ops))
        await asyncio.sleep(lat)
        v = self.data.get(key)
        self.ops.append(("get", key, v, llm_peer.conv_var.get()))
        return v

    async def set(self, key, value):
        lat = self.world.store_latency("set", len(self.ops))
        await asyncio.sleep(lat)
        self.data[key] = value
        self.ops.append(("set", key, value, llm_peer.conv_var.get()))


class FakeRequest:
    headers = {}


class ServerWorld:
    def __init__(self, sc):
        self.sc = sc
        self.d = Draws(sc.get("lat_seed", 0))
        self.paths = []  # paths handed to RailsConfig.from_path
        self.gen_calls = []  # (tag, messages) handed to generate_async
        self.resent = {}  # request index -> the stored thread the client resent in front of its new messages

    def store_latency(self, op, n):
        return self.d.choice(SHORT_GRID, "store", op, n)


def _yml(marker):
    # every configuration directory carries its own marker in the general instructions: the prompt (and with it the stub LLM's
    # reply) tells which configuration really served a request
    return CONFIG_YML + ("streaming: True\n" if marker == "cfgS" else "") + "instructions:\n  - type: general\n    content: |\n      CFG[%s] you are a bot.\n" % marker


def build_tree(base):
    root = os.path.join(base, "root")
    for cid in VALID_IDS:
        os.makedirs(os.path.join(root, cid))
        with open(os.path.join(root, cid, "config.yml"), "w") as f:
            f.write(_yml(cid))
    os.makedirs(os.path.join(root, "_hidden"))
    with open(os.path.join(root, "_hidden", "config.yml"), "w") as f:
        f.write(_yml("_hidden"))
    os.makedirs(os.path.join(root, ".dot"))
    with open(os.path.join(root, ".dot", "config.yml"), "w") as f:
        f.write(_yml(".dot"))
    with open(os.path.join(root, "file.txt"), "w") as f:
        f.write("not a directory")
    # decoys OUTSIDE the root; `root2` shares the root's name as a string prefix
    for out in ("outside", "root2", os.path.join("root2", "cfgX")):
        os.makedirs(os.path.join(base, out), exist_ok=True)
        with open(os.path.join(base, out, "config.yml"), "w") as f:
            f.write(_yml("OUTSIDE:" + out))
    return root


class C20(Prop):
    id = "C20"
    level = "exploration"
    world = "SERVER"
    technique = "deterministic simulation of the server route coroutine on a virtual-time loop with a simulated datastore (latencies), stub LLM provider and a filesystem-seam monitor on config loading; request histories over thread ids, sequential and as concurrent tasks"
    rule = ("one run = a scratch config root (two valid configs, hidden/dot dirs, a plain file) with decoys outside (sibling `root2` sharing the root's name as prefix) and a history of <= 10 requests: valid and hostile "
            "config_id / config_ids (separators, dot sequences, encodings, unicode look-alikes, absolute paths, empty, NUL, very long, decoy names, combined ids), 1-3 thread ids (>= 16 chars) with and without context, "
            "sequentially or as concurrent tasks on different threads with datastore latencies. non-trivial = runs with >= 1 hostile id and >= 2 requests on one thread; distinct = distinct (id classes, thread pattern, family)")
    components = {
        "real": ["nemoguardrails.server.api.chat_completion / _get_rails / RequestBody (pydantic validation)", "RailsConfig.from_path (real loader on a scratch tree)", "LLMRails.generate_async (Colang 1.0, general mode)"],
        "stub": ["HTTP layer (FastAPI routing/serialisation bypassed: the route coroutine is awaited directly)", "datastore (SimDataStore with scheduler-chosen latencies)", "LLM provider (SimLLM registered as engine `simllm`)",
                 "embedding model", "event loop clock (SimLoop)"],
    }
    assumptions = ["the root itself counts as inside the root (config_id '.' resolves to it); confinement is judged on os.path.realpath", "store errors are outside the property's quantifier (not injected)"]
    expected_probes = ["answering_config_identified", "hostile_id_rejected", "valid_id_loaded", "thread_second_request", "thread_request_with_returned_state", "client_resent_the_stored_thread", "streamed_reply", "concurrent_threads", "combined_config_ids", "empty_config_id"]
    ddmin_paths = [("requests",)]
    quick_runs = 400
    thorough_runs = 30000
    chunk = 8
    run_timeout_s = 120.0

    def setup_process(self):
        import warnings

        warnings.filterwarnings("ignore")
        logging.disable(logging.CRITICAL)
        embed_peer.ensure_registered()
        from nemoguardrails.llm.providers import register_llm_provider

        register_llm_provider("simllm", llm_peer.SimLLM)

    def generate(self, d, index, tier):
        n = d.randint(1, 10, "n")
        reqs = []
        for i in range(n):
            r = {"text": "message %d #c0t%d#" % (i, i)}
            kind = d.weighted([("valid", 5), ("hostile", 4), ("multi", 1), ("none", 1)], "kind", i)
            if kind == "valid":
                r["config_id"] = d.choice(VALID_IDS, "vid", i)
            elif kind == "hostile":
                r["config_id"] = d.choice(HOSTILE_ABS_IDS, "haid", i) if d.chance(0.3, "habs", i) else d.choice(HOSTILE_IDS, "hid", i)
            elif kind == "multi":
                r["config_ids"] = [d.choice(VALID_IDS + HOSTILE_IDS[:12] + HOSTILE_ABS_IDS[:6], "mid", i, j) for j in range(2)]
            if d.chance(0.6, "thr", i):
                r["thread_id"] = d.choice(THREADS, "tid", i)
            if d.chance(0.25, "ctx", i):
                r["context"] = {"k": "v%d" % i}
            if d.chance(0.2, "extra", i):
                # a request may bring several new messages at once (a client catching up): all of them follow the stored thread
                r["extra"] = [{"role": "user", "content": "earlier question %d" % i}, {"role": "assistant", "content": "earlier answer %d" % i}][: d.randint(1, 2, "nextra", i)]
            if d.chance(0.12, "stream", i):
                # a streamed reply (the configuration supports it): the thread is used and updated like for any other request
                r.pop("config_ids", None)
                r["config_id"] = "cfgS"
                r["stream"] = True
            if "thread_id" in r and d.chance(0.12, "resend", i):
                # a client that resends the whole conversation as it knows it (the stored thread) in front of its new message: the
                # messages used are still the stored thread followed by ALL the messages of the request
                r["resend"] = True
            if d.chance(0.3, "state", i):
                # an explicit state object next to the thread id: the state the server returned for this thread before
                # ("prev"), or an empty one - the thread is used and updated all the same
                r["state"] = d.choice(["prev", "prev", "empty"], "statekind", i)
            reqs.append(r)
        if d.chance(0.2, "twin-threads"):
            # different threads whose stored histories are byte-identical (everybody says the same thing and gets the same answer)
            for r in reqs:
                r["text"] = "hello again #c0t0#"
                r.pop("extra", None)
        return {"requests": reqs, "family": d.weighted([("seq", 3), ("conc", 2)], "family"), "default_config_id": d.choice([None, None, "cfgA"], "default"), "lat_seed": d.randint(0, 1 << 30, "lat")}

    def execute(self, sc):
        import nemoguardrails.server.api as api

        out = Outcome()
        tr = Trace(sc.get("run_seed"))
        base = tempfile.mkdtemp(prefix="c20-", dir="/dev/shm" if os.path.isdir("/dev/shm") else None)
        world = ServerWorld(sc)
        holder = {}

        def clock():
            lp = holder.get("loop")
            return lp.time() if lp is not None else 0.0

        resp = llm_peer.LLMWorld(lambda call: "LLM[g%s] generated answer%s" % (_last_tok(call.prompt) or "#none#", "".join(" via <%s>" % m[4:-1] for m in _cfg_markers(call.prompt))), latency_fn=lambda call: world.d.choice(SHORT_GRID, "llm", call.n), clock=clock)
        llm_peer.set_current_world(resp)
        store = SimDataStore(world)
        real_from_path = api.RailsConfig.from_path
        real_llmrails = api.LLMRails

        class RecordingConfig(api.RailsConfig):
            pass

        def from_path(path, *a, **kw):
            world.paths.append(path)
            return real_from_path(path, *a, **kw)

        class RecordingRails(real_llmrails):
            async def generate_async(self, *a, **kw):
                world.gen_calls.append((llm_peer.conv_var.get(), copy.deepcopy(kw.get("messages"))))
                return await real_llmrails.generate_async(self, *a, **kw)

        saved = (api.app.rails_config_path, getattr(api.app, "single_config_mode", False), getattr(api.app, "default_config_id", None), api.datastore, api.LLMRails)
        ctx = seams.SimContext(clock=clock)
        seams.install(ctx)
        seams.reset_run_state(ctx)
        # one run = one server process: memoised helpers of the server module start empty (a run must not see another run's threads)
        for _name in ([] if os.environ.get("VERIF_C20_KEEP_MODULE_STATE") else dir(api)):  # (the switch exists to test the runner's sequence fallback)
            _clear = getattr(getattr(api, _name, None), "cache_clear", None)
            if callable(_clear):
                _clear()
        try:
            root = build_tree(base)
            api.app.rails_config_path = root
            api.app.single_config_mode = False
            api.app.default_config_id = sc.get("default_config_id")
            api.llm_rails_instances.clear()
            api.llm_rails_events_history_cache.clear()
            api.datastore = store
            api.LLMRails = RecordingRails
            api.RailsConfig.from_path = staticmethod(from_path)
            results = {}

            def expand(x):
                if isinstance(x, list):
                    return [expand(y) for y in x]
                return x.replace("@R@", root).replace("@B@", base) if isinstance(x, str) else x

            last_state = {}

            async def one(i, r):
                tok = llm_peer.conv_var.set("r%d" % i)
                try:
                    resent = []
                    if r.get("resend") and r.get("thread_id"):
                        resent = json.loads(store.data.get("thread-" + r["thread_id"]) or "[]")
                        if resent:
                            out.probe("client_resent_the_stored_thread")
                    world.resent[i] = resent
                    body = {"messages": [dict(m) for m in resent] + [dict(m) for m in r.get("extra", [])] + [{"role": "user", "content": r["text"]}]}
                    for k in ("config_id", "config_ids", "thread_id", "context"):
                        if k in r:
                            body[k] = expand(copy.deepcopy(r[k])) if k.startswith("config") else copy.deepcopy(r[k])
                    if r.get("stream"):
                        body["stream"] = True
                    if r.get("state"):
                        body["state"] = copy.deepcopy(last_state.get(r.get("thread_id")) or {}) if r["state"] == "prev" else {}
                        if body["state"]:
                            out.probe("thread_request_with_returned_state")
                    try:
                        rb = api.RequestBody(**body)
                    except control.SimControl:
                        raise
                    except Exception as e:  # pydantic validation error = HTTP 422, a legitimate rejection
                        results[i] = ("invalid-request", type(e).__name__)
                        return
                    try:
                        res = await api.chat_completion(rb, FakeRequest())
                        if hasattr(res, "body_iterator"):
                            # a StreamingResponse: the reply is what the stream delivers until it ends
                            pieces = []
                            async for piece in res.body_iterator:
                                pieces.append(piece if isinstance(piece, str) else piece.decode("utf-8", "replace"))
                            out.probe("streamed_reply")
                            res = {"messages": [{"role": "assistant", "content": "".join(pieces)}], "streamed": True}
                        results[i] = ("ok", res)
                        if isinstance(res, dict) and res.get("state") and r.get("thread_id"):
                            last_state[r["thread_id"]] = res["state"]
                    except control.SimControl:
                        raise
                    except asyncio.CancelledError:
                        raise
                    except Exception as e:
                        results[i] = ("raised", e)
                finally:
                    llm_peer.conv_var.reset(tok)

            async def main(loop):
                holder["loop"] = loop
                if sc["family"] == "seq":
                    for i, r in enumerate(sc["requests"]):
                        await one(i, r)
                else:
                    # concurrent tasks, but requests of one thread id stay sequential (the property is about different ids)
                    lanes = {}
                    for i, r in enumerate(sc["requests"]):
                        lanes.setdefault(r.get("thread_id") or "nothread-%d" % i, []).append((i, r))

                    async def lane(items):
                        for i, r in items:
                            await one(i, r)

                    await asyncio.gather(*[asyncio.ensure_future(lane(items)) for items in lanes.values()])
                    if len(lanes) >= 2:
                        out.probe("concurrent_threads")
                return loop.time()

            # LLMRails(verbose=True) prints; one redirect around the whole run (per-task redirects would interleave)
            with contextlib.redirect_stdout(io.StringIO()):
                t_end, loop = run_sim(main, start_time=1000.0, max_iterations=600000)
            out.sim_seconds = t_end - 1000.0
        finally:
            api.RailsConfig.from_path = real_from_path
            api.LLMRails = saved[4]
            api.datastore = saved[3]
            api.app.rails_config_path, api.app.single_config_mode, api.app.default_config_id = saved[0], saved[1], saved[2]
            api.llm_rails_instances.clear()
            api.llm_rails_events_history_cache.clear()
            llm_peer.set_current_world(None)
            seams.uninstall()
            rootreal = os.path.realpath(os.path.join(base, "root"))
            path_reals = [(p, _safe_realpath(p)) for p in world.paths]
            id_class = {}
            for r in sc["requests"]:
                for cid in (r.get("config_ids") or []) + ([r["config_id"]] if "config_id" in r else []) + ([sc["default_config_id"]] if sc.get("default_config_id") else []):
                    id_class[cid] = _classify(rootreal, cid.replace("@R@", rootreal).replace("@B@", os.path.dirname(rootreal)))
            rootdir = os.path.join(base, "root")
            shutil.rmtree(base, ignore_errors=True)

        # ---- oracle (a): confinement ---------------------------------------------------------------
        for p, real in path_reals:
            tr.log("load", os.path.relpath(p, base))
            if not (real == rootreal or real.startswith(rootreal + os.sep)):
                out.violate("loaded-outside-root", _id_class(os.path.relpath(p, rootreal)), "RailsConfig.from_path was called with %r which resolves outside the root %r" % (p, rootreal))
        thread_model = {}
        per_thread_count = {}
        hostile_seen = False
        for i, r in enumerate(sc["requests"]):
            st = results.get(i)
            ids = r.get("config_ids") or ([r["config_id"]] if "config_id" in r else None)
            tr.log("req", i, r.get("config_id"), r.get("config_ids"), r.get("thread_id"), st[0] if st else None, _content(st).replace(base, "@B@") if isinstance(_content(st), str) else _content(st))
            if st is None:
                out.violate("request-lost", "no-result", "request %d never completed" % i)
                continue
            if st[0] == "invalid-request":
                continue
            if "config_ids" in r:
                out.probe("combined_config_ids")
            if ids is not None and "" in ids:
                out.probe("empty_config_id")
            # RequestBody turns config_id "" into "no id"; config_ids [""] reaches the loader as the root itself
            given = [c for c in (ids or []) if not (c == "" and "config_id" in r)]
            eff_ids = given if given else ([sc["default_config_id"]] if sc.get("default_config_id") else None)
            if eff_ids is None and not ids and st[0] == "raised" and type(st[1]).__name__ == "GuardrailsConfigurationError":
                out.probe("no_id_no_default_rejected")  # documented behaviour: nothing to load, explicit configuration error
                continue
            if ids and any(cid not in VALID_IDS for cid in ids):
                hostile_seen = True
            if st[0] == "raised":
                e = st[1]
                out.violate("route-raised", "%s:%s" % (type(e).__name__, _id_class(ids[0]) if ids else "no-id"), "request %d (config ids %r) made the route raise %s: %s instead of returning a reply" % (i, ids, type(e).__name__, str(e)[:200]))
                continue
            content = _content(st)
            # what the property demands per id: an id that does not resolve (realpath of root/id, as the server joins it) to a
            # directory inside the root MUST get the fixed reply; the plain names of the valid configurations MUST be served;
            # any other spelling that resolves inside the root (./cfgA, cfgA/, <root>/cfgA, ".", "_hidden") MAY be served or
            # refused - the property only forbids loading from outside
            classes = [id_class.get(cid, "must-fixed") for cid in eff_ids] if eff_ids is not None else []
            eff_exp = [cid.replace("@R@", rootdir).replace("@B@", base) for cid in eff_ids] if eff_ids is not None else None
            is_fixed = eff_ids is not None and content == FIXED_TMPL % (eff_exp,)
            if eff_ids is None or "must-fixed" in classes:
                if eff_ids is not None and not is_fixed:
                    out.violate("not-fixed-reply", _id_class(eff_ids[classes.index("must-fixed")]), "request %d with config ids %r: reply %r, expected the fixed 'could not load' reply (the id does not name a directory inside the root)" % (i, eff_ids, content))
                    # the request was served: the thread bookkeeping below follows what really happened
                else:
                    out.probe("hostile_id_rejected")
                    continue
            if is_fixed:
                if all(c == "must-load" for c in classes):
                    out.violate("valid-config-refused", "plain-name", "request %d with config ids %r (configurations inside the root, plain names) got the fixed 'could not load' reply" % (i, eff_ids))
                else:
                    out.probe("alternative_spelling_refused")
                continue
            if any(c == "may-load" for c in classes):
                out.probe("alternative_spelling_served")
            out.probe("valid_id_loaded")
            # which configuration answered: its marker travels through the prompt into the stub LLM's reply
            # (the reply spells it `via <name>` so that replies quoted in later prompts of a thread are not taken for instructions)
            import re as _re

            marks = set("CFG[%s]" % m for m in _re.findall(r"via <([^>]*)>", content if isinstance(content, str) else ""))
            if any(m.startswith("CFG[OUTSIDE") for m in marks):
                out.violate("loaded-outside-root", "served-by-outside-config", "request %d (config ids %r) was answered by a configuration from outside the root: %r" % (i, eff_ids, sorted(marks)))
            if all(c == "must-load" for c in classes):
                allowed = set("CFG[%s]" % c for c in eff_ids)
                if not marks <= allowed or (len(eff_ids) == 1 and marks != allowed):
                    out.violate("served-by-other-config", "plain-name", "request %d asked for configuration(s) %r but the reply %r was produced with %r" % (i, eff_ids, content, sorted(marks)))
                else:
                    out.probe("answering_config_identified")
            # ---- oracle (b): threads ---------------------------------------------------------------
            new_msgs = ([{"role": "context", "content": r["context"]}] if "context" in r else []) + [dict(m) for m in world.resent.get(i, [])] + [dict(m) for m in r.get("extra", [])] + [{"role": "user", "content": r["text"]}]
            calls = [m for (tag, m) in world.gen_calls if tag == "r%d" % i]
            tid = r.get("thread_id")
            if tid:
                per_thread_count[tid] = per_thread_count.get(tid, 0) + 1
                if per_thread_count[tid] >= 2:
                    out.probe("thread_second_request")
                expected = thread_model.get(tid, []) + new_msgs
            else:
                expected = new_msgs
            if len(calls) != 1 or calls[0] != expected:
                out.violate("thread-messages", "with-thread" if tid else "no-thread", "request %d (thread %r): generate_async received %r, expected stored thread + new messages = %r" % (i, tid, calls[0] if calls else None, expected))
                continue
            if tid:
                reply = st[1]["messages"][0]
                stored = store.data.get("thread-" + tid)
                want = expected + [reply]
                # the last write of this request
                writes = [json.loads(v) for (op, k, v, tag) in store.ops if op == "set" and tag == "r%d" % i]
                if st[1].get("streamed") and not writes:
                    out.violate("thread-stored", "streaming-request-not-stored", "request %d (thread %r, streamed reply %r): nothing was stored for the thread, expected %r" % (i, tid, reply.get("content"), want))
                    continue  # the model follows what really is in the store
                if len(writes) != 1 or writes[0] != want:
                    out.violate("thread-stored", "wrong-write", "request %d (thread %r) stored %r, expected %r" % (i, tid, writes, want))
                wrong_keys = [k for (op, k, v, tag) in store.ops if tag == "r%d" % i and k != "thread-" + tid]
                if wrong_keys:
                    out.violate("thread-mixed", "foreign-key", "request %d of thread %r touched datastore keys %r" % (i, tid, wrong_keys))
                thread_model[tid] = want
            else:
                touched = [k for (op, k, v, tag) in store.ops if tag == "r%d" % i]
                if touched:
                    out.violate("thread-mixed", "no-thread-request-touched-store", "request %d without thread id touched %r" % (i, touched))
        if hostile_seen and any(c >= 2 for c in per_thread_count.values()):
            out.nontrivial_sigs.append((tuple(sorted(set(_id_class((r.get("config_ids") or [r.get("config_id")])[0]) for r in sc["requests"]))), tuple(sorted(per_thread_count.values())), sc["family"]))
        out.digest = tr.digest()
        out.interleaving = tuple((op, k, tag) for (op, k, v, tag) in store.ops)
        out.sample = {"family": sc["family"], "default_config_id": sc.get("default_config_id"), "requests": [{k: v for k, v in r.items() if k != "text"} for r in sc["requests"]][:8],
                      "paths_loaded": [os.path.relpath(p, base) for p, _ in path_reals][:8], "replies": [_content(results.get(i))[:60] if isinstance(_content(results.get(i)), str) else None for i in range(len(sc["requests"]))][:8]}
        return out

    def same_class(self, a, b):
        return a.oracle == b.oracle


def _safe_realpath(p):
    try:
        return os.path.realpath(p)
    except ValueError:  # embedded NUL: no file can be opened through such a path
        return os.path.normpath(p.replace("\x00", "?"))


def _content(st):
    if not st or st[0] != "ok":
        return st[0] if st else None
    try:
        return st[1]["messages"][0]["content"]
    except Exception:
        return repr(st[1])[:80]


def _cfg_markers(prompt):
    import re

    return re.findall(r"CFG\[[^\]]*\]", prompt if isinstance(prompt, str) else repr(prompt))


def _last_tok(prompt):
    import re

    m = re.findall(r"#c\d+t\d+#", prompt if isinstance(prompt, str) else repr(prompt))
    return m[-1] if m else None


def _classify(rootreal, cid):
    """must-fixed / must-load / may-load for one (expanded) config id; see the oracle."""
    if "\x00" in cid:
        return "must-fixed"
    real = _safe_realpath(os.path.join(rootreal, cid))
    inside = real == rootreal or real.startswith(rootreal + os.sep)
    if not inside or not os.path.isdir(real):
        return "must-fixed"
    return "must-load" if cid in VALID_IDS else "may-load"


def _inside_and_config(cid):
    """A config id the server is expected to be able to load: a valid config directory of the tree."""
    return cid in VALID_IDS or cid in ("_hidden", ".dot", ".", "")


def _id_class(cid):
    if cid is None:
        return "none"
    if cid == "":
        return "empty"
    if cid in VALID_IDS:
        return "valid"
    if cid.startswith(("@R@2", "/@R@2")):
        return "absolute-sibling-sharing-root-prefix"
    if cid.startswith(("@R@", "@B@")):
        return "absolute-dotdot" if ".." in cid else "absolute"
    if ".." in cid:
        return "dotdot"
    if "/" in cid or "\\" in cid:
        return "separator"
    if cid.strip() in (".", "") or cid == " ":
        return "dot-or-blank"
    if "\x00" in cid:
        return "nul"
    if len(cid) > 255:
        return "long"
    if cid in ("nonexistent", "root2", "file.txt", "CFGA", "cfgA ", "~", "$HOME", "*", "cfg?", "cfgA;cfgB", "cfgA-cfgB"):
        return "not-a-config"
    if any(ord(c) > 127 for c in cid):
        return "unicode"
    return "other"


PROP = C20()
