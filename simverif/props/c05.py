"""C05 - competing flows: exactly one most-specific action wins per interaction loop.

Constructed competitions (specificity, priority, loop, shared/distinct actions, non-matching
flows); every outcome of the random tie-break is forced in turn by the scheduler."""
import copy
from fractions import Fraction

from ..kernel import control, seams
from ..kernel.trace import Trace
from ..worlds import interp as I
from .base import Outcome
from .interp_base import InterpProp

PRIORITIES = [None, None, None, "0.9", "0.5", "0.1"]
LOOPS = [None, None, None, "A", "B", "NEW", "main"]  # "main": a loop NAMED like the main flow is a loop of its own all the same


def program_for(sc):
    lines = ["flow main"]
    for t in range(sc.get("trackers", 0)):
        lines.append("  activate t%d" % t)
    for k, _f in enumerate(sc["flows"]):
        lines.append("  start c%d" % k)
    lines += ["  match Never()", ""]
    # activated flows whose every instance lives in a loop of its own and whose next instance starts early (the shape of the
    # shipped `continuation on undefined flow`): after the first event two instances of the same flow are alive
    for t in range(sc.get("trackers", 0)):
        lines += ['@loop("NEW")', "flow t%d" % t, "  match Ev()", '  start UtteranceBotAction(script="t%d-first")' % t, "  start_new_flow_instance:",
                  "  match Ev()", '  start UtteranceBotAction(script="t%d-second")' % t, "  match Never()", ""]
    for k, f in enumerate(sc["flows"]):
        levels = f.get("levels") or [f.get("priority")]
        # a mentioned parameter may be spelt as a regular expression that matches exactly the value (counts as mentioned, see
        # the documentation's regex(".*") advice)
        rx = set(f.get("regex", []))
        args = ", ".join(("p%d=regex(\"^%d$\")" % (i, v)) if str(i) in rx else ("p%d=%d" % (i, v)) for i, v in sorted((int(i), v) for i, v in f["mentions"].items()))
        for li, prio in enumerate(levels):
            name = "c%d" % k if li == 0 else "c%di%d" % (k, li)
            if li == 0 and f.get("loop"):
                lines.append('@loop("%s")' % f["loop"])
            lines.append("flow %s" % name)
            if prio:
                lines.append("  priority %s" % prio)
            if li == len(levels) - 1:
                if f.get("or_group"):
                    # the same wait spelt as one alternative of an or-group (head fork and merge): the matching score is the event match's
                    lines.append("  match Ev(%s) or NeverComes()" % args)
                else:
                    lines.append("  match Ev(%s)" % args)
            else:
                # the event is matched further down: every level adds one match (FlowFinished of the level below) to the chain
                lines.append("  await c%di%d" % (k, li + 1))
            if li == 0:
                # identical actions are identical whatever the order their arguments are written in
                a1, a2 = 'script="%s"' % f["action"], "intensity=1.0"
                if f.get("send"):
                    # a raw event is an action of the flow as much as an action start is: it competes with both kinds
                    lines.append("  send CustomEv(%s)" % (", ".join([a2, a1]) if f.get("args_swapped") else ", ".join([a1, a2])))
                else:
                    lines.append("  start UtteranceBotAction(%s)" % (", ".join([a2, a1]) if f.get("args_swapped") else ", ".join([a1, a2])))
                lines.append("  match Hold()")
            lines.append("")
    return "\n".join(lines)


def chain_of(f, m):
    """Matching-score chain of a competitor, innermost match first (documented in more-on-flows.rst): the event match scores
    0.9^(parameters of the event the pattern does not mention), every further level matches the FlowFinished of the level
    below perfectly (1.0); each match is multiplied by the priority of the flow that makes it."""
    levels = f.get("levels") or [f.get("priority")]
    chain = []
    for li in range(len(levels) - 1, -1, -1):
        s = Fraction(9, 10) ** (m - len(f["mentions"])) if li == len(levels) - 1 else Fraction(1)
        if levels[li]:
            s *= Fraction(levels[li])
        chain.append(s)
    return tuple(chain)


def padded(chain, n):
    return tuple(chain) + (Fraction(1),) * (n - len(chain))


class C05(InterpProp):
    id = "C05"
    level = "exploration"
    technique = "deterministic simulation of the Colang 2 interpreter: constructed competitions of 2-6 waiting flows, the random tie-break is a scheduler decision and every outcome is forced in turn; oracle computed from the construction with exact rationals"
    rule = ("one scenario = 2-6 flows waiting for the same event with 1-4 parameters; each flow mentions a subset of the parameters (specificity), optionally a priority in {0.9, 0.5, 0.1}, sits in the parent loop, "
            "loop A, loop B or a NEW loop, starts a distinct or a shared action; some flows mention a wrong value (must stay untouched). It is executed once per forced tie-break pick (0..n-1, n = size of the largest group). "
            "evaluations = executions; non-trivial = competitions with >= 2 matching flows in one loop and different actions; distinct = distinct (specificity/priority/loop/action vector, pick)")
    expected_probes = ["competitor_waits_in_or_group", "raw_event_competes_with_action_start", "two_live_instances_of_a_new_loop_flow", "chains_of_different_length", "tie_set_of_2plus", "every_tie_member_won", "shared_action_co_winners", "independent_loops", "non_matching_flow_untouched", "priority_decided"]
    exhaustive_parts = ["every outcome of the tie-break (pick 0..n-1) for every generated competition"]
    quick_runs = 4000
    thorough_runs = 400000
    chunk = 100
    ddmin_paths = [("flows",)]

    def generate(self, d, index, tier):
        m = d.randint(1, 4, "m")
        actual = {str(i): d.randint(1, 3, "val", i) for i in range(m)}
        n = d.randint(2, 6, "n")
        flows = []
        for k in range(n):
            mentions = {str(i): actual[str(i)] for i in range(m) if d.chance(0.6, "mention", k, i)}
            wrong = d.chance(0.15, "wrong", k) and m > 0
            if wrong:
                i = str(d.randint(0, m - 1, "wrongi", k))
                mentions[i] = actual[i] + 5
            shared = d.chance(0.3, "shared", k)
            depth = d.weighted([(1, 5), (2, 3), (3, 2)], "depth", k)
            levels = [d.choice(PRIORITIES, "prio", k)] + [d.choice(PRIORITIES, "lprio", k, li) for li in range(1, depth)]
            send = d.chance(0.25, "send", k)
            flows.append({"mentions": mentions, "priority": levels[0], "levels": levels, "loop": d.choice(LOOPS, "loop", k),
                          "action": ("sshared" if shared else "s%d" % k) if send else ("shared" if shared else "a%d" % k), "send": send, "matches": not wrong,
                          "regex": [i for i in sorted(mentions) if d.chance(0.2, "rx", k, i)], "args_swapped": d.chance(0.4, "swap", k), "or_group": d.chance(0.25, "orgroup", k)})
        return {"m": m, "actual": actual, "flows": flows, "trackers": d.weighted([(0, 5), (1, 3), (2, 2)], "trackers")}

    def run_pick(self, sc, program, pick):
        choices = []

        def chooser(site, k):
            p = pick % k
            choices.append((site, k, p))
            return p

        ctx = seams.SimContext(chooser=chooser)
        I.install_interp_seams(ctx)
        seams.reset_run_state(ctx)
        try:
            itp = I.Interp(program)
            itp.start()
            before = {f.flow_id: (f.status.name, tuple(sorted(h.position for h in f.heads.values()))) for f in itp.state.flow_states.values()}
            ev = {"type": "Ev"}
            for i, v in sc["actual"].items():
                ev["p%s" % i] = v
            out = itp.deliver(ev)
            after = {f.flow_id: (f.status.name, tuple(sorted(h.position for h in f.heads.values()))) for f in itp.state.flow_states.values()}
            starts = [(o.get("script"), o.get("action_uid")) for o in out if o["type"] in ("StartUtteranceBotAction", "CustomEv")]
            bad = I.check_quiescence(itp.state)
            self._second = None
            if sc.get("trackers"):
                out2 = itp.deliver(dict(ev))
                self._second = ([o.get("script") for o in out2 if o["type"] == "StartUtteranceBotAction"],
                                sorted((f.flow_id, f.status.name) for f in itp.state.flow_states.values() if f.flow_id.startswith("t")))
                bad = bad + I.check_quiescence(itp.state)
            return starts, before, after, choices, bad
        finally:
            I.uninstall_interp_seams()

    def execute(self, sc):
        out = Outcome()
        tr = Trace(sc.get("run_seed"))
        program = program_for(sc)
        flows = sc["flows"]
        m = len(sc["actual"])
        # oracle from the construction, exact rationals
        score = {}
        for k, f in enumerate(flows):
            if f["matches"]:
                score[k] = chain_of(f, m)
        maxlen = max([len(c) for c in score.values()] + [1])
        score = {k: padded(c, maxlen) for k, c in score.items()}  # compared left to right, a missing position counts as 1.0
        groups = {}
        for k in score:
            lp = flows[k].get("loop")
            key = ("NEW", k) if lp == "NEW" else (lp or "parent")
            groups.setdefault(key, []).append(k)
        if len(groups) >= 2:
            out.probe("independent_loops")
        max_group = max([len(g) for g in groups.values()] + [1])
        winners_seen = {key: set() for key in groups}
        out.evaluations = 0
        for pick in range(max_group):
            try:
                starts, before, after, choices, bad = self.run_pick(sc, program, pick)
            except control.StepBudgetExceeded:
                out.inconclusive = "step budget exceeded"
                break
            except control.SimControl:
                raise
            except Exception as e:
                out.violate("raised", type(e).__name__, "competition %r pick %d: %s: %s" % (flows, pick, type(e).__name__, str(e)[:160]))
                break
            out.evaluations += 1
            tr.log("pick", pick, starts, sorted(after.items()), choices)
            started_scripts = [s for s, _u in starts]
            for key, members in groups.items():
                top = max(score[k] for k in members)
                T = [k for k in members if score[k] == top]
                if len(T) >= 2:
                    out.probe("tie_set_of_2plus")
                if any(any(flows[k].get("levels") or [flows[k].get("priority")]) for k in members) and len(members) >= 2:
                    out.probe("priority_decided")
                if len(set(len(chain_of(flows[k], m)) for k in members)) >= 2:
                    out.probe("chains_of_different_length")
                # which flows of this group proceeded (now parked on `match Hold()`), which failed
                proceeded = [k for k in members if after.get("c%d" % k, ("?",))[0] == "STARTED" and after["c%d" % k][1] != before["c%d" % k][1]]
                failed = [k for k in members if after.get("c%d" % k, ("?",))[0] == "STOPPED"]
                actions = set(flows[k]["action"] for k in proceeded)
                desc = "loop %s, flows %s (score chains %s), tie-break pick %d" % (key, ["c%d:%s" % (k, flows[k]["action"]) for k in members], ["/".join(str(x) for x in chain_of(flows[k], m)) for k in members], pick)
                if len(actions) != 1:
                    out.violate("not-exactly-one-action", "%d-actions" % len(actions), "%s: flows %r proceeded with actions %r" % (desc, proceeded, sorted(actions)))
                    continue
                win_action = next(iter(actions))
                if not any(k in T for k in proceeded):
                    out.violate("winner-not-most-specific", "winner-outside-top-set", "%s: proceeded %r, most specific set %r" % (desc, proceeded, T))
                expected_proceed = sorted(k for k in members if flows[k]["action"] == win_action)
                if sorted(proceeded) != expected_proceed:
                    out.violate("identical-action-flows", "co-winner-missing" if len(proceeded) < len(expected_proceed) else "loser-proceeded",
                                "%s: flows with the winning action %r are %r but %r proceeded" % (desc, win_action, expected_proceed, sorted(proceeded)))
                if sorted(failed) != sorted(k for k in members if flows[k]["action"] != win_action):
                    out.violate("losers-not-failed", "status", "%s: failed flows %r, expected %r" % (desc, sorted(failed), sorted(k for k in members if flows[k]["action"] != win_action)))
                n_start = started_scripts.count(win_action)
                other_groups_same = sum(1 for key2, mem2 in groups.items() if key2 != key and any(flows[k]["action"] == win_action for k in mem2))
                if n_start < 1 or n_start > 1 + other_groups_same:
                    out.violate("action-start-count", "%d-starts" % n_start, "%s: action %r was started %d times" % (desc, win_action, n_start))
                if len(expected_proceed) >= 2:
                    out.probe("shared_action_co_winners")
                if any(flows[k].get("or_group") for k in members) and len(members) >= 2:
                    out.probe("competitor_waits_in_or_group")
                if len(set(bool(flows[k].get("send")) for k in members)) == 2:
                    out.probe("raw_event_competes_with_action_start")
                for k in proceeded:
                    if k in T:
                        winners_seen[key].add(k)
                if len(members) >= 2 and len(set(flows[k]["action"] for k in members)) >= 2:
                    out.nontrivial_sigs.append((tuple((len(flows[k]["mentions"]), tuple(flows[k].get("levels") or [flows[k].get("priority")]), flows[k].get("loop"), flows[k]["action"] == "shared") for k in members), pick))
            # instances of a @loop("NEW") flow are in different loops: they never compete, neither with each other nor with anybody else
            if sc.get("trackers") and self._second is not None:
                out.probe("two_live_instances_of_a_new_loop_flow")
                starts2, tstat = self._second
                for t in range(sc["trackers"]):
                    if started_scripts.count("t%d-first" % t) != 1:
                        out.violate("different-loops-competed", "first-event", "tracker t%d (own loop) did not start its action on the first event: started %r" % (t, started_scripts))
                    if starts2.count("t%d-second" % t) != 1 or starts2.count("t%d-first" % t) != 1:
                        out.violate("different-loops-competed", "second-event", "second event: the two live instances of the @loop(\"NEW\") flow t%d must both act (scripts t%d-second and t%d-first), started %r; instances %r" % (t, t, t, starts2, tstat))
            # non-matching flows are left untouched
            for k, f in enumerate(flows):
                if not f["matches"]:
                    out.probe("non_matching_flow_untouched")
                    if after.get("c%d" % k) != before.get("c%d" % k):
                        out.violate("non-matching-flow-touched", "moved", "flow c%d mentions a wrong value but went from %r to %r" % (k, before.get("c%d" % k), after.get("c%d" % k)))
            for (clause, detail) in bad:
                out.violate("quiescence-after-conflict", clause, detail)
            if out.violations:
                break
        # reach: every member of a tie set was observed winning (not a verdict)
        for key, members in groups.items():
            top = max(score[k] for k in members)
            T = [k for k in members if score[k] == top]
            if len(T) >= 2 and len(set(flows[k]["action"] for k in T)) == len(T) and winners_seen[key] == set(T):
                out.probe("every_tie_member_won")
        out.digest = tr.digest()
        out.interleaving = tuple(sorted((str(k), tuple(v)) for k, v in groups.items()))
        out.sample = {"event": {"type": "Ev", **{"p%s" % i: v for i, v in sc["actual"].items()}}, "flows": flows, "groups": {str(k): v for k, v in groups.items()}, "score_chains": {("c%d" % k): [str(x) for x in chain_of(flows[k], m)] for k in score}, "picks_executed": out.evaluations}
        return out

    def shrink(self, sc):
        for k, f in enumerate(sc["flows"]):
            if f.get("loop"):
                c = copy.deepcopy(sc)
                c["flows"][k]["loop"] = None
                yield c
            levels = f.get("levels") or [f.get("priority")]
            if len(levels) > 1:
                c = copy.deepcopy(sc)
                c["flows"][k]["levels"] = levels[:-1]
                yield c
            for li, pr in enumerate(levels):
                if pr:
                    c = copy.deepcopy(sc)
                    c["flows"][k]["levels"] = levels[:li] + [None] + levels[li + 1:]
                    c["flows"][k]["priority"] = c["flows"][k]["levels"][0]
                    yield c

    def same_class(self, a, b):
        return a.oracle == b.oracle


PROP = C05()
