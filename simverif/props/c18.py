"""C18 - streaming output does not depend on how the LLM text is chunked.

World STREAM: a real StreamingHandler, a producer task (the LLM side) and a consumer task
(``async for``) on SimLoop; optionally a piped second handler.  Fault kind: fragmentation of the
token stream at chosen offsets (all 2^(n-1) chunkings for short texts), slow/fast consumer.
"""
import asyncio
import copy
import itertools

from ..kernel import control, seams
from ..kernel.draws import Draws
from ..kernel.loop import run_sim
from ..kernel.trace import Trace
from .base import Outcome, Prop

# (prefix, suffix, stop) - the real call sites of generation.py and shortened variants of them
CONFIGS = [
    (None, None, []),
    ('Bot message: "', '"', []),
    ('  "', '"', []),
    ('Bot message: "', '"', ['"\n']),
    ('  "', '"', ['"\n']),
    (None, None, ["User:"]),
    (None, None, ["\nuser ", "\nUser "]),
    ('B"', '"', []),
    ('B"', '"', ['"\n']),
    ('"', '"', []),
    (None, '"', []),
    ("P:", None, []),
    (None, None, ["U:"]),
    (None, None, ["\nu", "\nU"]),
    (None, "ab", []),
    ("P:", "ab", ["ST"]),
    (None, None, ["#"]),
    (None, "#", ["#"]),
]
BODY_ALPHABET = "xyz 12"
FREE_ALPHABET = 'xy "\nUu:BPabST#'
EXHAUSTIVE_MAX = 12


def all_cutsets(n):
    """All 2^(n-1) ways to split a text of length n into non-empty chunks (as tuples of offsets)."""
    pos = list(range(1, n))
    for k in range(len(pos) + 1):
        for c in itertools.combinations(pos, k):
            yield list(c)


def chunks_of(text, cuts):
    out, prev = [], 0
    for c in list(cuts) + [len(text)]:
        out.append(text[prev:c])
        prev = c
    return [c for c in out if c != ""] if text else []


def reference(text, prefix, suffix, stop):
    """The property's own words: prefix and suffix removed, cut at the first stop sequence."""
    s = text
    if prefix:
        if not s.startswith(prefix):
            return None
        s = s[len(prefix):]
    cut = None
    for st in stop:
        i = s.find(st)
        if i >= 0 and (cut is None or i < cut):
            cut = i
    if cut is not None:
        s = s[:cut]
    if suffix and s.endswith(suffix):
        s = s[: -len(suffix)]
    return s


class C18(Prop):
    id = "C18"
    level = "exploration"
    world = "STREAM"
    technique = "deterministic simulation: fragmentation fault on the token stream (all 2^(n-1) chunkings for texts <= 12 chars, seeded samples above) with producer/consumer tasks on a virtual-time loop; oracle = chunking independence + reference string"
    rule = ("one scenario = one (text, prefix/suffix/stop configuration, entry point, pipe, chunk type) executed under every chunking of the text when len(text) <= 12 "
            "(exhaustive for that text) or under 96 seeded chunkings otherwise; evaluations = chunkings executed; non-trivial = chunkings that place at least one chunk "
            "boundary inside or adjacent to a prefix/suffix/stop occurrence; distinct = distinct (configuration, text, cut set)")
    components = {
        "real": ["nemoguardrails.streaming.StreamingHandler (push_chunk, _process, on_llm_new_token, on_llm_end, pipe_to, async iterator)", "asyncio.Queue/Event/tasks"],
        "stub": ["the LLM token producer (a task that feeds chunks through the LangChain callback methods or push_chunk as generation.py does)", "the consumer of the stream", "event loop clock (SimLoop)"],
    }
    assumptions = [
        "token streams consist of non-empty tokens (an optional empty first token is generated because the handler documents it); an empty token in the middle of a stream is the handler's own end-of-stream signal and is not generated",
        "clause 3 (equals the reference string) is asserted only for texts of the unambiguous class prefix+body+suffix[+stop+tail] with a body free of pattern characters",
    ]
    exhaustive_parts = ["all 2^(n-1) chunkings of every generated text with n <= 12"]
    expected_probes = ["rails_turn_streamed_text", "boundary_inside_prefix", "boundary_inside_stop", "suffix_in_prefix_chunk", "stop_inside_chunk", "exhaustive_texts"]
    quick_runs = 1600
    thorough_runs = 120000
    chunk = 20
    run_timeout_s = 120.0

    def generate(self, d, index, tier):
        import os

        fam = os.environ.get("C18_FAMILY")  # development aid: force one family
        if fam == "rails" or (fam is None and d.chance(0.04, "family-rails")):
            return gen_rails_scenario(d, tier)
        prefix, suffix, stop = d.choice(CONFIGS, "cfg")
        unamb = d.chance(0.65, "class")
        long_cfg = len(prefix or "") > 4
        if unamb:
            body = "".join(d.choice(BODY_ALPHABET, "b", i) for i in range(d.randint(0, 5 if not long_cfg else 8, "blen")))
            # pattern-free body: no character of any pattern
            pats = "".join([prefix or "", suffix or ""] + list(stop))
            body = "".join(ch for ch in body if ch not in pats)
            if suffix and not stop and d.chance(0.3, "suffix-char-tail"):
                # the body itself ends with characters of the suffix (a message that closes a quotation of its own: `Say "hi""`):
                # exactly ONE suffix is the pattern, what is in front of it is message text
                body += "".join(d.choice(suffix, "sct", i) for i in range(d.randint(1, 2, "sctlen")))
            form = d.choice(["ps", "ps", "p_stop", "ps_stop"] if stop else ["ps"], "form")
            text = (prefix or "") + body
            if form in ("ps", "ps_stop") and suffix:
                text += suffix
            if form in ("p_stop", "ps_stop"):
                st = d.choice(stop, "st")
                tail = "".join(d.choice(BODY_ALPHABET, "t", i) for i in range(d.randint(0, 3, "tlen")))
                text += st + tail
            cls = "unambiguous"
        else:
            n = d.randint(0, 10, "flen")
            text = "".join(d.choice(FREE_ALPHABET, "f", i) for i in range(n))
            if prefix and d.chance(0.7, "withprefix"):
                text = prefix + text
                if d.chance(0.2, "junk-before-prefix"):
                    # something in front of the expected prefix (a leading space, a repeated beginning of the prefix itself)
                    text = d.choice([" ", prefix[:1], prefix[: max(1, len(prefix) // 2)], "x"], "junk") + text
            cls = "free"
        entry = d.choice(["callbacks", "callbacks", "push_empty", "push_none"], "entry")
        if stop and entry == "push_none":
            entry = "push_empty"
        sc = {
            "text": text,
            "prefix": prefix, "suffix": suffix, "stop": list(stop),
            "class": cls,
            "entry": entry,
            "pipe": d.chance(0.3, "pipe"),
            "chunk_type": d.choice(["str", "gen"], "ctype") if entry != "callbacks" else "gen",
            "first_empty": entry == "callbacks" and d.chance(0.3, "fe"),
            "producer_gap": d.choice([0.0, 0.0, 0.001, 0.01], "pg"),
            "consumer_gap": d.choice([0.0, 0.0, 0.005, 0.05], "cg"),
        }
        if len(text) <= EXHAUSTIVE_MAX:
            sc["cuts"] = "all"
        else:
            n = len(text)
            cs = [[]]
            for k in range(95):
                p = d.choice([0.1, 0.3, 0.5, 0.8, 1.0], "dens", k)
                cs.append([i for i in range(1, n) if d.unit("cut", k, i) < p])
            sc["cuts"] = cs
        return sc

    # ---------------------------------------------------------------------------------------
    def run_one(self, sc, cuts, tr=None):
        """Feed one chunking; returns (delivered_concat, completion, n_delivered_chunks, ended)."""
        from langchain_core.outputs import GenerationChunk, LLMResult

        from nemoguardrails.streaming import StreamingHandler

        text = sc["text"]
        chunks = chunks_of(text, cuts)
        res = {}

        async def main(loop):
            h = StreamingHandler()
            h.set_pattern(prefix=sc["prefix"], suffix=sc["suffix"])
            h.stop = list(sc["stop"])
            sink = h
            if sc["pipe"]:
                sink = StreamingHandler()
                h.set_pipe_to(sink)
            got = []
            ended = {"v": False}

            async def consumer():
                async for c in sink:
                    got.append(c)
                    if sc["consumer_gap"]:
                        await asyncio.sleep(sc["consumer_gap"])
                ended["v"] = True

            ct = asyncio.ensure_future(consumer())

            async def producer():
                if sc["entry"] == "callbacks":
                    if sc["first_empty"]:
                        await h.on_llm_new_token("", chunk=GenerationChunk(text=""), run_id=None)
                    for c in chunks:
                        await h.on_llm_new_token(c, chunk=GenerationChunk(text=c), run_id=None)
                        if sc["producer_gap"]:
                            await asyncio.sleep(sc["producer_gap"])
                    await h.on_llm_end(LLMResult(generations=[[]]), run_id=None)
                else:
                    for c in chunks:
                        await h.push_chunk(GenerationChunk(text=c) if sc["chunk_type"] == "gen" else c)
                        if sc["producer_gap"]:
                            await asyncio.sleep(sc["producer_gap"])
                    await h.push_chunk("" if sc["entry"] == "push_empty" else None)

            await producer()
            # let every callback run; the consumer may legitimately never see a terminator when a
            # stop sequence ended the stream (generation.py uses wait() in that case)
            await asyncio.sleep(1.0 + sc["consumer_gap"] * (len(chunks) + 2))
            if not ct.done():
                ct.cancel()
                try:
                    await ct
                except asyncio.CancelledError:
                    pass
            res["out"] = ("".join(c for c in got if c), h.completion, len(got), ended["v"])

        run_sim(main, start_time=1000.0, max_iterations=200000)
        return res["out"]

    def execute(self, sc):
        if sc.get("family") == "rails":
            return execute_rails(sc)
        out = Outcome()
        tr = Trace(sc.get("run_seed"))
        text, prefix, suffix, stop = sc["text"], sc["prefix"], sc["suffix"], sc["stop"]
        cutsets = list(all_cutsets(len(text))) if sc["cuts"] == "all" else [list(c) for c in sc["cuts"]]
        if sc["cuts"] == "all":
            out.probe("exhaustive_texts")
        ref = reference(text, prefix, suffix, stop) if sc["class"] == "unambiguous" else None
        cfgclass = "%s%s%s|%s%s" % ("P" if prefix else "-", "S" if suffix else "-", "T" if stop else "-", sc["entry"], "|pipe" if sc["pipe"] else "")
        results = []
        pattern_spans = _pattern_spans(text, prefix, suffix, stop)
        out.evaluations = 0
        for cuts in cutsets:
            try:
                delivered, completion, n, ended = self.run_one(sc, cuts)
            except control.SimControl:
                raise
            except Exception as e:
                out.violate("exception", "%s:%s" % (cfgclass, type(e).__name__), "chunking %r of %r raised %r" % (chunks_of(text, cuts), text, e))
                tr.log("exc", cuts, repr(e))
                out.evaluations += 1
                continue
            out.evaluations += 1
            results.append((cuts, delivered, completion))
            tr.log("run", cuts, delivered, completion, n, ended)
            if any(lo < c < hi or c == lo or c == hi for c in cuts for (lo, hi, _k) in pattern_spans):
                out.nontrivial_sigs.append((cfgclass, text, tuple(cuts)))
            self._probes(out, text, cuts, prefix, suffix, stop, pattern_spans)
        # clause 1: chunking independence of the delivered concatenation
        if results:
            base_cuts, base_del, _ = results[0]
            for cuts, delivered, completion in results:
                if delivered != base_del:
                    out.violate("chunking-dependent", "%s:%s" % (cfgclass, _where(text, cuts, base_cuts, pattern_spans)),
                                "text %r (prefix=%r suffix=%r stop=%r, entry=%s): chunks %r deliver %r but chunks %r deliver %r"
                                % (text, prefix, suffix, stop, sc["entry"], chunks_of(text, base_cuts), base_del, chunks_of(text, cuts), delivered))
                    break
            # clause 2: completion equals the delivered concatenation
            for cuts, delivered, completion in results:
                if completion != delivered:
                    out.violate("completion-mismatch", "%s:%s" % (cfgclass, _where(text, cuts, cuts, pattern_spans)),
                                "text %r (prefix=%r suffix=%r stop=%r, entry=%s) chunks %r: delivered %r but completion %r"
                                % (text, prefix, suffix, stop, sc["entry"], chunks_of(text, cuts), delivered, completion))
                    break
            # clause 3: reference string on the unambiguous class
            if ref is not None:
                for cuts, delivered, completion in results:
                    if delivered != ref:
                        out.violate("not-reference", "%s:%s" % (cfgclass, _where(text, cuts, cuts, pattern_spans)),
                                    "text %r (prefix=%r suffix=%r stop=%r, entry=%s) chunks %r: delivered %r, expected %r (prefix/suffix removed, cut at first stop)"
                                    % (text, prefix, suffix, stop, sc["entry"], chunks_of(text, cuts), delivered, ref))
                        break
        out.digest = tr.digest()
        out.sample = {"text": text, "prefix": prefix, "suffix": suffix, "stop": stop, "entry": sc["entry"], "pipe": sc["pipe"], "chunkings": len(cutsets),
                      "example_chunks": chunks_of(text, cutsets[len(cutsets) // 2]) if cutsets else [], "reference": ref}
        return out

    def _probes(self, out, text, cuts, prefix, suffix, stop, spans):
        for (lo, hi, kind) in spans:
            if kind == "prefix" and any(lo < c < hi for c in cuts):
                out.probe("boundary_inside_prefix")
            if kind == "stop":
                if any(lo < c < hi for c in cuts):
                    out.probe("boundary_inside_stop")
                elif not any(c == lo or c == hi for c in cuts):
                    out.probe("stop_inside_chunk")
            if kind == "suffix" and prefix and not any(len(prefix) <= c <= lo for c in cuts):
                out.probe("suffix_in_prefix_chunk")

    def shrink(self, sc):
        if sc.get("family") == "rails":
            if len(sc.get("chunkings", [])) > 2:
                for k in range(1, len(sc["chunkings"])):
                    c = copy.deepcopy(sc)
                    c["chunkings"] = [sc["chunkings"][0], sc["chunkings"][k]]
                    yield c
            return
        # reduce an 'all' scenario to explicit pairs is done by ddmin over cuts after expansion
        if sc["cuts"] == "all":
            c = copy.deepcopy(sc)
            c["cuts"] = list(all_cutsets(len(sc["text"])))
            yield c
            return
        for key, val in (("pipe", False), ("first_empty", False), ("producer_gap", 0.0), ("consumer_gap", 0.0)):
            if sc.get(key):
                c = copy.deepcopy(sc)
                c[key] = val
                yield c

    ddmin_paths = [("cuts",), ("convs", "*", "turns")]

    def same_class(self, a, b):
        # while shrinking the cut sets the boundary description may move; keep oracle + config class
        return a.oracle == b.oracle and a.sig.split(":")[0] == b.sig.split(":")[0]


# ------------------------------------------------------------------------------------------------
# Integration family: the same property through LLMRails (what `stream_async` does): the simulated LLM streams its
# reply token by token into the handler that generation.py configures per task (patterns `  "`...`"`, stop sequences,
# the buffered local handler of single-call mode piped into the caller's handler, push_chunk of predefined messages).
# One scenario = one conversation; it is served once per chunking with the LLM texts unchanged; the text delivered by
# the caller's streaming handler must not depend on the chunking.
# ------------------------------------------------------------------------------------------------
RAILS_BODIES = ["generated answer", "ok", "", "a", "two words", 'said "quoted" words', "line one\\nstill text", "ends with space ", "x" * 40, "bot says: hi", "User: not a turn"]
RAILS_TAILS = ["", "", "\n", '\nuser "and then"', '\nuser "and then"\n  ask more\nbot answer more\n  "never shown"', "\n\n", " ", '\nUser: hi', '"\n']


def gen_rails_scenario(d, tier):
    from ..gen import convo

    mode = d.weighted([("dialog", 3), ("single_call", 3), ("passthrough", 2), ("rails_only", 1)], "mode")
    sc = convo.gen_spec(d, colang="1.0", max_turns=2, modes=[(mode, 1)], allow_shipped=False)
    sc["in_rails"] = sc["in_rails"][:1]
    sc["out_rails"] = []
    sc["exceptions"] = False
    sc["streaming"] = True
    sc["verbose_bot_message"] = d.chance(0.8, "verbose")
    sc["lat_mode"] = "zero"
    sc["llm_body"], sc["llm_tail"] = {}, {}
    for t, turn in enumerate(sc["convs"][0]["turns"]):
        sc["llm_body"][turn["tok"]] = d.choice(RAILS_BODIES, "body", t)
        sc["llm_tail"][turn["tok"]] = d.choice(RAILS_TAILS, "tail", t)
        if d.chance(0.45, "free", t):
            sc["intents"][turn["tok"]] = "free"  # LLM-made message instead of a predefined one
    n = 10 if tier == "quick" else 40
    # a chunking = where the text is cut + when the tokens arrive (latency before the first token, gap between tokens):
    # the same text may be completely delivered before the pipeline looks at it, or trickle in while it already forwards it
    sc["chunkings"] = ["whole", "chars"] + [["cuts", d.randint(0, 1 << 30, "ck", k), d.choice([0.05, 0.15, 0.3, 0.6], "dens", k),
                                            d.choice([0.0, 0.0, 0.01, 0.5], "lat", k), d.choice([0.0, 0.0, 0.001, 0.05], "gap", k), d.choice([0.0, 0.0, 0.25], "alat", k)] for k in range(n - 2)]
    sc["family"] = "rails"
    return sc


def _chunker_for(spec):
    from ..kernel.draws import Draws

    if spec == "whole":
        return lambda call, reply: [reply]
    if spec == "chars":
        return lambda call, reply: list(reply)
    seed, dens = spec[1], spec[2]
    dd = Draws(seed)

    def chunker(call, reply):
        cuts = [i for i in range(1, len(reply)) if dd.unit("cut", call.n, i) < dens]
        return chunks_of(reply, cuts)

    return chunker


def _serve_streaming(sc, chunking):
    """One conversation with streaming handlers; returns per turn (streamed text, reply content, status)."""
    from ..kernel import seams
    from ..worlds import rails as R
    from nemoguardrails.streaming import StreamingHandler

    holder = {}

    def clock():
        lp = holder.get("loop")
        return lp.time() if lp is not None else 0.0

    ctx = seams.SimContext(clock=clock)
    seams.install(ctx)
    seams.reset_run_state(ctx)
    try:
        lat = chunking[3] if isinstance(chunking, list) and len(chunking) > 3 else 0.0
        gap = chunking[4] if isinstance(chunking, list) and len(chunking) > 4 else 0.0
        alat = chunking[5] if isinstance(chunking, list) and len(chunking) > 5 else 0.0  # a slow dialog action: the LLM stream ends before the pipeline takes it over
        world = R.RailsWorld(sc, loop_clock=clock, latency=lambda call: lat, action_latency=lambda kind, name, n: alat)
        world.llm_world.chunker = _chunker_for(chunking)
        world.llm_world.chunk_gap_fn = lambda call, i: gap
        turns = []

        async def main(loop):
            holder["loop"] = loop
            msgs = []
            for t, turn in enumerate(sc["convs"][0]["turns"]):
                msgs.append({"role": "user", "content": turn["text"]})
                h = StreamingHandler()
                got = []

                async def consume():
                    async for c in h:
                        got.append(c)

                ct = asyncio.ensure_future(consume())
                st, res = await world.generate("c0", messages=msgs, streaming_handler=h)
                await asyncio.sleep(1.0)
                if not ct.done():
                    ct.cancel()
                    try:
                        await ct
                    except asyncio.CancelledError:
                        pass
                content = None
                if st == "ok":
                    msg = res.response[0] if hasattr(res, "response") and isinstance(res.response, list) else res
                    content = msg.get("content") if isinstance(msg, dict) else None
                    if isinstance(content, str) and msg.get("role") == "assistant":
                        msgs.append({"role": "assistant", "content": content})
                else:
                    msgs.pop()
                turns.append(("".join(c for c in got if c), content, st if st == "ok" else "raised %s" % type(res).__name__, h.completion))
            return loop.time()

        run_sim(main, start_time=1000.0, max_iterations=400000)
        streamed_calls = [c.task for c in world.llm_world.calls]
        return turns, streamed_calls
    finally:
        seams.uninstall()


def execute_rails(sc):
    import logging

    logging.disable(logging.CRITICAL)
    out = Outcome()
    tr = Trace(sc.get("run_seed"))
    out.evaluations = 0
    base = None
    cfg = "rails:%s" % sc["mode"]
    for chunking in sc["chunkings"]:
        try:
            turns, tasks = _serve_streaming(sc, chunking)
        except control.SimDeadlock as e:
            out.evaluations += 1
            where = next((str(t) for t in e.parked if "generate_async" in str(t)), "?")
            tr.log("chunking", chunking if isinstance(chunking, str) else chunking[1:], "deadlock")
            out.violate("stream-never-ends", "%s:%s" % (cfg, where.split(" > ")[-2] if " > " in where else "?"),
                        "mode %s (LLM bodies %r, tails %r): with the LLM reply streamed as %r generate_async never returns and the caller's stream never ends - nothing is scheduled any more; parked at %s. "
                        "Other token timings of the same text complete." % (sc["mode"], sc["llm_body"], sc["llm_tail"], chunking, where[-300:]))
            continue
        out.evaluations += 1
        tr.log("chunking", chunking if isinstance(chunking, str) else chunking[1:], [(a, b, c) for a, b, c, _ in turns])
        if any(t[2] != "ok" for t in turns):
            out.inconclusive = "generate raised with a streaming handler (%s)" % [t[2] for t in turns]
            break
        if base is None:
            base = (chunking, turns)
            for a, b, c, comp in turns:
                if a:
                    out.probe("rails_turn_streamed_text")
                if a and a == b:
                    out.probe("rails_streamed_equals_reply")
            continue
        for t, (x, y) in enumerate(zip(base[1], turns)):
            if x[0] != y[0]:
                body = sc["llm_body"].get(sc["convs"][0]["turns"][t]["tok"])
                tail = sc["llm_tail"].get(sc["convs"][0]["turns"][t]["tok"])
                out.violate("chunking-dependent", "%s:%s" % (cfg, "tail" if tail else "no-tail"),
                            "mode %s turn %d (LLM message body %r, text after the closing quote %r): with the LLM reply streamed as %s the caller's handler delivered %r, streamed as %s it delivered %r (returned reply: %r)"
                            % (sc["mode"], t, body, tail, base[0] if isinstance(base[0], str) else "seeded chunks", x[0], chunking if isinstance(chunking, str) else "seeded chunks %r" % (chunking[1:],), y[0], y[1]))
                break
            if x[1] != y[1]:
                out.violate("reply-chunking-dependent", cfg, "mode %s turn %d: the returned reply depends on how the LLM text was streamed: %r vs %r" % (sc["mode"], t, x[1], y[1]))
                break
        out.nontrivial_sigs.append((cfg, tuple(sorted(set(tasks))), chunking if isinstance(chunking, str) else "seeded"))
    out.digest = tr.digest()
    out.sample = {"family": "rails (LLMRails.generate_async with a streaming handler)", "mode": sc["mode"], "llm_body": sc["llm_body"], "llm_tail": sc["llm_tail"], "chunkings": len(sc["chunkings"]),
                  "streamed_first_chunking": [t[0] for t in base[1]] if base else None, "replies": [t[1] for t in base[1]] if base else None}
    return out


def _pattern_spans(text, prefix, suffix, stop):
    spans = []
    if prefix and text.startswith(prefix):
        spans.append((0, len(prefix), "prefix"))
    body_start = len(prefix) if prefix and text.startswith(prefix) else 0
    first = None
    for st in stop:
        i = text.find(st, body_start)
        if i >= 0 and (first is None or i < first[0]):
            first = (i, i + len(st))
    if first:
        spans.append((first[0], first[1], "stop"))
    end = first[0] if first else len(text)
    if suffix and text[body_start:end].endswith(suffix):
        spans.append((end - len(suffix), end, "suffix"))
    return spans


def _where(text, cuts, base_cuts, spans):
    """Describe, relative to the pattern occurrences, how the failing chunking is placed."""
    parts = []
    for (lo, hi, kind) in spans:
        if any(lo < c < hi for c in cuts):
            parts.append("split-" + kind)
        elif not any(c == lo for c in cuts) and lo > 0:
            parts.append(kind + "-joined-left")
        elif not any(c == hi for c in cuts) and hi < len(text):
            parts.append(kind + "-joined-right")
    return "+".join(parts) or "plain"


PROP = C18()
