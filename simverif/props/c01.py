"""C01 - input rails gate every user message before anything else sees it."""
import copy

from ..gen import convo
from ..kernel.trace import Trace
from ..worlds import rails_run as RR
from .base import Outcome, Prop

RAILS_COMPONENTS = {
    "real": ["nemoguardrails.rails.llm.llmrails.LLMRails (generate_async, events cache)", "rails/llm/llm_flows.co", "colang v1_0 runtime (flows.py, runtime.py, sliding.py) and parser",
             "colang v2_x runtime/statemachine/parser + library core.co, guardrails.co", "actions/llm/generation.py (LLMGenerationActions)", "llm/taskmanager.py, prompts, output parsers",
             "actions/action_dispatcher.py", "library/self_check input/output flows and actions (shipped rails share of the configurations)", "embeddings/basic.py + annoy (intent/flow indexes)"],
    "stub": ["LLM provider (SimLLM: langchain LLM, replies are a pure function of task+prompt)", "embedding model (SimEmbeddingModel)", "rail and dialog actions (sim_rail/sim_rewrite/sim_dialog/SimGenerateAction, verdict table)",
             "event loop clock/selector (SimLoop)", "uuid / wall clock / random.choice seams"],
}


def cfgclass(spec):
    return "v1:%s" % spec["mode"] if spec["colang"] == "1.0" else "v2"


class RailsProp(Prop):
    world = "RAILS"
    components = RAILS_COMPONENTS
    ddmin_paths = [("convs", "*", "turns"), ("in_rails",), ("out_rails",)]
    chunk = 6
    run_timeout_s = 90.0

    def setup_process(self):
        import logging

        # the code under test logs every contained action failure with a traceback: slow and noisy
        logging.disable(logging.CRITICAL)

    def shrink(self, sc):
        # drop verdict entries, simplify latencies and flags
        for rail, tab in sorted(sc.get("verdicts", {}).items()):
            for tk in sorted(tab):
                c = copy.deepcopy(sc)
                del c["verdicts"][rail][tk]
                yield c
        if sc.get("lat_mode") != "zero":
            c = copy.deepcopy(sc)
            c["lat_mode"] = "zero"
            yield c
        if sc.get("exceptions"):
            c = copy.deepcopy(sc)
            c["exceptions"] = False
            yield c
        for side in ("in_rails", "out_rails"):
            for i, r in enumerate(sc.get(side, [])):
                if r["kind"] != "check":
                    c = copy.deepcopy(sc)
                    c[side][i]["kind"] = "check"
                    yield c

    def _clean(self, sc):
        """After ddmin removed rails, verdict entries of vanished rails are harmless; nothing to do."""
        return sc


class C01(RailsProp):
    id = "C01"
    level = "exploration"
    technique = "deterministic simulation of LLMRails with stub LLM/actions on a virtual-time loop: ordering invariants over the recorded seam history of seeded multi-turn conversations vs. a reference rail pipeline"
    rule = ("one run = one generated configuration (Colang 1.0 modes rails-only/dialog/single-call/passthrough/embeddings-only/multi-step, or Colang 2.x guardrails library; 0-3 input and output rails, "
            "generated or shipped self-check rails, refusal or rail-exception) and one 1-5 turn conversation with a seeded allow/block/rewrite verdict per (rail, turn). "
            "non-trivial = turns in which an input rail blocked or rewrote, or a turn > 0; distinct = distinct (config class, rail kinds, verdict vector, turn position)")
    expected_probes = ["input_block", "input_rewrite", "later_turn_checked", "user_text_begins_with_variable_syntax", "same_text_as_previous_turn", "empty_user_message"]
    quick_runs = 420
    thorough_runs = 30000

    def generate(self, d, index, tier):
        sc = convo.gen_spec(d)
        if sc["colang"] == "1.0" and d.chance(0.3, "per-turn-options"):
            # requests may carry generation options of their own; a request that switched the input rails off for itself (not
            # judged) must not weaken the gate of the next request
            for t, turn in enumerate(sc["convs"][0]["turns"]):
                o = d.weighted([("none", 4), ("input-off", 3), ("output-off", 1), ("log", 1), ("llm-params", 1)], "topt", t)
                if o != "none":
                    turn["options"] = {"output-off": {"rails": {"output": False}}, "input-off": {"rails": {"input": False}}, "log": {"log": {"activated_rails": True}},
                                       "llm-params": {"llm_params": {"temperature": 0.2}}}[o]
        turns = sc["convs"][0]["turns"]
        for t in range(1, len(turns)):
            if d.chance(0.15, "repeat-text", t):
                # the user says exactly the same thing again: a new message, gated like any other
                turns[t] = dict(turns[t - 1])
        for t, turn in enumerate(sc["convs"][0]["turns"]):
            if sc["colang"] == "1.0" and sc["in_rails"] and not any(r["kind"] == "shipped" for r in sc["in_rails"]) and d.chance(0.08, "empty-text", t):
                # (not with the shipped self-check rail: it answers an empty message without asking its LLM, which is the call the
                # harness recognises that rail by)
                # an EMPTY user message is a user message: all input rails see it (default-deny and audit rails depend on that)
                turn["text"] = ""
                continue
            if d.chance(0.12, "dollar-text", t):
                # a user message that begins with variable syntax (a price): it is text like any other
                turn["text"] = "$20 " + turn["text"]
            elif sc["colang"] == "1.0" and d.chance(0.1, "multiline-text", t):
                # a user message of two lines (a pasted paragraph): one message, gated as a whole
                turn["text"] = "dear bot,\n" + turn["text"]
        return sc

    def execute(self, sc):
        out = Outcome()
        tr = Trace(sc.get("run_seed"))
        turns = sc["convs"][0]["turns"] if sc.get("convs") else []
        world, records = RR.run_conversations(sc, tr=tr, options_fn=(lambda c, t: sc["convs"][c]["turns"][t].get("options")) if any(t.get("options") for t in turns) else None)
        cc = cfgclass(sc)
        out.evaluations = max(1, len(records))
        input_off_before = False
        for rec in records:
            if rec.status != "ok":
                out.inconclusive = "generate raised %s" % type(rec.exc).__name__
                tr.log("exc", repr(rec.exc))
                continue
            opts = sc["convs"][rec.conv]["turns"][rec.t].get("options") or {}
            if (opts.get("rails") or {}).get("input") is False:
                out.probe("turn_with_input_rails_switched_off")
                input_off_before = True
                continue
            if input_off_before:
                out.probe("checked_after_options-input-off")
            if sc["convs"][rec.conv]["turns"][rec.t]["text"] == "":
                out.probe("empty_user_message")
            if rec.t > 0 and sc["convs"][rec.conv]["turns"][rec.t]["text"] == sc["convs"][rec.conv]["turns"][rec.t - 1]["text"]:
                out.probe("same_text_as_previous_turn")
            RR.check_c01(sc, rec, out, cc + (":after-options-input-off" if input_off_before else ""), generation_clauses=True,
                         text_seen_before=any(sc["convs"][rec.conv]["turns"][k]["tok"] == sc["convs"][rec.conv]["turns"][rec.t]["tok"] for k in range(rec.t)))
            kinds = [k for k in RR.turn_outcome_kinds(sc, rec) if k.startswith("input")]
            if kinds or rec.t > 0:
                out.nontrivial_sigs.append((cc, tuple(r["kind"] for r in sc["in_rails"]), tuple(sorted(kinds)), rec.t, bool(sc.get("exceptions"))))
        out.sim_seconds = getattr(world, "sim_seconds", 0.0)
        out.digest = tr.digest()
        out.interleaving = tuple((e["kind"], e["name"]) for r in records for e in r.events)
        out.sample = {"config": {k: sc[k] for k in ("colang", "mode", "in_rails", "out_rails", "exceptions")}, "verdicts": sc["verdicts"], "turns": [r.brief() for r in records][:5]}
        return out


PROP = C01()
