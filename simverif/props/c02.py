"""C02 - output rails gate every LLM-generated bot message, in every turn."""
from ..gen import convo
from ..kernel.trace import Trace
from ..worlds import rails_run as RR
from .base import Outcome
from .c01 import RailsProp, cfgclass


TAILS = ["it's fine", "100% sure: yes", "one. two. three", "a, b; c", "e=mc^2 (approx.)", "ends with a colon:", "- dash first", "#hash and $dollar {brace}", "  two  spaces  ", "ünïcödé ✓", 'with "double quotes" inside', "back\\slash and /slash", "first line\nsecond line", "para one\n\npara two"]


class C02(RailsProp):
    id = "C02"
    level = "exploration"
    technique = "deterministic simulation of LLMRails with stub LLM/actions on a virtual-time loop: verdict sequences across turns; every LLM-made text in a reply must have passed every output rail in the recorded seam history"
    rule = ("one run = one generated configuration (Colang 1.0 modes or Colang 2.x guardrails library; 0-3 output rails, generated or shipped) and one 1-5 turn conversation with a seeded "
            "allow/block/rewrite verdict per (rail, LLM text). non-trivial = turns in which an output rail blocked or rewrote, or turns after such a turn; "
            "distinct = distinct (config class, rail kinds, what happened in earlier turns, this turn's verdict vector)")
    expected_probes = ["output_block", "output_rewrite", "checked_after_output-block", "checked_after_options-output-off", "checked_after_empty-llm-message", "continued_through_state_object", "llm_text_multiline_in_reply"]
    quick_runs = 420
    thorough_runs = 30000

    def generate(self, d, index, tier):
        # more blocks than C01: the interesting histories are those with a block before the last turn
        sc = convo.gen_spec(d, verdict_bias=3)
        if sc["colang"] == "1.0" and d.chance(0.35, "per-turn-options"):
            # requests of one conversation may carry generation options of their own (output rails switched off for one
            # request, only a log asked for, LLM parameters): what one request asked for must not weaken the checking of
            # the next one.  A turn whose own options switch the output rails off is not judged.
            for t, turn in enumerate(sc["convs"][0]["turns"]):
                o = d.weighted([("none", 4), ("output-off", 3), ("input-off", 1), ("log", 1), ("llm-params", 1)], "topt", t)
                if o != "none":
                    turn["options"] = {"output-off": {"rails": {"output": False}}, "input-off": {"rails": {"input": False}}, "log": {"log": {"activated_rails": True}},
                                       "llm-params": {"llm_params": {"temperature": 0.2}}}[o]
        if sc["colang"] == "1.0" and any(t.get("options") for t in sc["convs"][0]["turns"]) and d.chance(0.5, "state-continuity"):
            # the requests of the conversation are chained through the returned state object instead of the message list: whatever
            # an earlier request (with other options) left in the state must not weaken the gate of a later one
            sc["v1_state_continuity"] = True
        if sc["colang"] == "1.0":
            # rails configured through parameterised flow ids (one shared subflow per side, the rail is chosen by the parameter)
            for side in ("in", "out"):
                checks = [r for r in sc["%s_rails" % side] if r["kind"] == "check"]
                if len(checks) >= 2 and d.chance(0.5, "flow-param", side):
                    for r in checks:
                        r["flow_param"] = True
        if d.chance(0.4, "llm-tails"):
            # "all LLM outputs": the text the rails are shown and the text the user gets are the same text, whatever is in it
            sc["llm_suffix"] = {turn["tok"]: d.choice(TAILS, "tail", t) for t, turn in enumerate(sc["convs"][0]["turns"]) if d.chance(0.6, "tail?", t)}
        if d.chance(0.3, "empty-llm"):
            # an LLM that returns an empty message in some turn (not the last one): nothing to gate in that turn, and the
            # turns after it are gated like any other
            turns = sc["convs"][0]["turns"]
            sc["llm_empty"] = [turn["tok"] for t, turn in enumerate(turns[:-1]) if d.chance(0.5, "empty", t)]
            sc["say_empty"] = True
        return sc

    def execute(self, sc):
        out = Outcome()
        tr = Trace(sc.get("run_seed"))
        turns = sc["convs"][0]["turns"] if sc.get("convs") else []
        world, records = RR.run_conversations(sc, tr=tr, options_fn=(lambda c, t: sc["convs"][c]["turns"][t].get("options")) if any(t.get("options") for t in turns) else None)
        cc = cfgclass(sc)
        out.evaluations = max(1, len(records))
        earlier = {}
        for rec in records:
            e = earlier.setdefault(rec.conv, [])
            if rec.status != "ok":
                out.inconclusive = "generate raised %s" % type(rec.exc).__name__
                tr.log("exc", repr(rec.exc))
                continue
            opts = sc["convs"][rec.conv]["turns"][rec.t].get("options") or {}
            if (opts.get("rails") or {}).get("output") is False:
                out.probe("turn_with_output_rails_switched_off")
                e.append("options-output-off")
                continue
            if "options-output-off" in e:
                out.probe("checked_after_options-output-off")
            if "empty-llm-message" in e:
                out.probe("checked_after_empty-llm-message")
            if rec.tok in (sc.get("llm_empty") or ()):
                e.append("empty-llm-message")
            if sc.get("v1_state_continuity") and rec.t > 0:
                out.probe("continued_through_state_object")
            RR.check_c02(sc, rec, out, cc, [k for k in e if k.startswith("output") or k.endswith("failure") or k.startswith("options") or k.startswith("empty")])
            kinds = RR.turn_outcome_kinds(sc, rec)
            okinds = [k for k in kinds if k.startswith("output")]
            if okinds or e:
                out.nontrivial_sigs.append((cc, tuple(r["kind"] for r in sc["out_rails"]), tuple(sorted(set(e))), tuple(sorted(okinds)), bool(sc.get("exceptions"))))
            e.extend(kinds)
        out.sim_seconds = getattr(world, "sim_seconds", 0.0)
        out.digest = tr.digest()
        out.interleaving = tuple((e["kind"], e["name"]) for r in records for e in r.events)
        out.sample = {"config": {k: sc[k] for k in ("colang", "mode", "in_rails", "out_rails", "exceptions")}, "verdicts": sc["verdicts"], "turns": [r.brief() for r in records][:5]}
        return out


PROP = C02()
