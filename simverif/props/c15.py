"""C15 - conversations served by one LLMRails instance do not influence each other.

One shared instance; 2-4 conversations; sequential interleavings of their turns or concurrent
asyncio tasks with seeded LLM / action latencies.  Reference: each conversation replayed alone,
turn by turn, on a fresh instance.  Attribution of LLM calls by a contextvar tag set by the client.
"""
import asyncio
import copy

from ..gen import convo
from ..kernel import seams
from ..kernel.draws import LATENCY_GRID, SHORT_GRID, Draws
from ..kernel.loop import run_sim
from ..kernel.trace import Trace
from ..peers import llm as llm_peer
from ..worlds import rails as R
from .base import Outcome
from .c01 import RailsProp, cfgclass

MODES = [("rails_only", 4), ("dialog", 3), ("passthrough", 2), ("single_call", 1)]
CONC_GRID = (0.0, 0.001, 0.002, 0.005, 0.01, 0.02, 0.05, 0.25, 1.0)
TEMPS = [None, None, 0.1, 0.9, 0.3]


class C15(RailsProp):
    id = "C15"
    level = "exploration"
    technique = "deterministic simulation: several conversations as asyncio tasks (or sequentially interleaved) on one shared LLMRails instance under a virtual-time loop with seeded LLM/action latencies; differential against each conversation replayed alone on a fresh instance"
    rule = ("one run = one configuration, 2-4 conversations of 1-4 turns (own texts, some crafted so that cache keys collide or roles are mimicked, some pairs beginning with the very same messages before going their own ways, own llm_params temperature), "
            "served on ONE instance either as a seeded sequential interleaving or as concurrent tasks with latencies from a grid (0..1 s, slow-peer x100 fault); "
            "non-trivial = runs where >= 2 LLM calls of different conversations overlapped in time, or two distinct message lists of the scenario share a cache key; "
            "distinct = distinct hash of the cross-conversation order of seam events")
    expected_probes = ["streamed_conversations", "twin_prefix_conversations", "llm_calls_overlapped", "llm_params_blocks_overlapped", "cache_key_collision_in_scenario", "sequential_interleaving", "concurrent_execution"]
    quick_runs = 320
    thorough_runs = 40000
    chunk = 4
    run_timeout_s = 120.0
    ddmin_paths = [("convs",), ("convs", "*", "turns")]

    def generate(self, d, index, tier):
        colang = d.weighted([("1.0", 4), ("2.x", 1)], "colang")
        n = d.randint(2, 4, "nconv")
        sc = convo.gen_spec(d, colang=colang, n_convs=n, max_turns=4, modes=MODES, allow_shipped=False)
        sc["in_rails"] = sc["in_rails"][:2]
        sc["out_rails"] = sc["out_rails"][:2]
        sc["family"] = d.weighted([("conc", 3), ("seq", 2)], "family")
        # per-turn generation options (temperature through llm_params)
        for c, conv in enumerate(sc["convs"]):
            for t, turn in enumerate(conv["turns"]):
                temp = d.choice(TEMPS, "temp", c, t) if colang == "1.0" else None
                if temp is not None:
                    turn["temperature"] = temp
            conv["start"] = d.choice(CONC_GRID, "start", c)
            conv["think"] = [d.choice(CONC_GRID, "think", c, t) for t in range(len(conv["turns"]))]
        # adversarial relation between two conversations: cache-key collisions / role mimicry
        adv = d.weighted([("none", 5), ("sep", 3), ("role", 2), ("twin", 3)], "adv") if colang == "1.0" else "none"
        sc["adversarial"] = adv
        if adv == "twin":
            # two conversations that begin with the very same messages (two users typing the same opening) and then
            # go their own ways: the instance's events cache holds ONE entry for the shared prefix, written and read by both
            a, b = sc["convs"][0], sc["convs"][1]
            for conv, c in ((a, 0), (b, 1)):
                while len(conv["turns"]) < 2:
                    t = len(conv["turns"])
                    tk = convo.tok(c, t)
                    conv["turns"].append({"tok": tk, "text": "topic %d then %s" % (t % 3, tk)})
                    sc["intents"][tk] = "free"
                    conv["think"] = list(conv.get("think", [])) + [0.0]
            k = d.randint(1, min(len(a["turns"]), len(b["turns"])) - 1, "twin-k")
            for t in range(k):
                b["turns"][t]["text"] = a["turns"][t]["text"]
                b["turns"][t]["tok"] = a["turns"][t]["tok"]
            sc["twin_prefix"] = k
            if d.chance(0.7, "twin-plain"):
                # no per-request options on the twins: with options the cache key contains the options message (see F18)
                for conv in (a, b):
                    for turn in conv["turns"]:
                        turn.pop("temperature", None)
        elif adv != "none" and n >= 2:
            # conversation 0 is "resumed" on this instance: its first request carries a history that was
            # not served here (stateless client, another replica) and whose cache key equals the key of
            # conversation 1's genuine history [user B0, assistant RB0]
            a, b = sc["convs"][0], sc["convs"][1]
            b0 = b["turns"][0]["text"]
            rb0 = _expected_first_reply(sc, b["turns"][0])
            ra = "LLM[g#c0t8#] earlier answer"
            if adv == "sep":
                a["turns"][0]["prefix_messages"] = [{"role": "user", "content": "%s:%s" % (b0, rb0)}, {"role": "assistant", "content": ra}]
            else:
                # role mimicry without sharing a true prefix: conversation 1 starts with a context message, conversation 0
                # with a *user* message whose text is that context's JSON; [context c, user B0, assistant R] and
                # [user json(c), user B0, assistant R] join to the same key
                import json as _json

                ctxd = {"k": "v1"}
                b["turns"][0]["pre_context"] = ctxd
                a["turns"][0]["prefix_messages"] = [{"role": "user", "content": _json.dumps(ctxd)}, {"role": "user", "content": b0}, {"role": "assistant", "content": rb0}]
            a["start"] = 30.0  # concurrent family: conversation 1 has answered its first turn by then
        if colang == "1.0" and adv == "none" and d.chance(0.5, "visitor"):
            # every conversation brings a context variable of its own that a predefined bot message renders ({{ visitor }})
            sc["bot_template_var"] = True
            for c, conv in enumerate(sc["convs"]):
                conv["turns"][0]["pre_context"] = {"visitor": "visitor-%d" % c}
                # make sure the predefined message is asked for in this conversation
                if d.chance(0.7, "visitor-topic0", c):
                    t = d.randint(0, len(conv["turns"]) - 1, "visitor-turn", c)
                    conv["turns"][t]["text"] = "topic 0 " + conv["turns"][t]["text"].split(" ", 2)[-1]
                    sc["intents"][conv["turns"][t]["tok"]] = "topic 0"
        if sc["family"] == "seq":
            slots = [c for c, conv in enumerate(sc["convs"]) for _ in conv["turns"]]
            sc["order"] = d.shuffle(slots, "order")
            if adv == "twin" and d.chance(0.6, "twin-order"):
                # both conversations pass the shared prefix before either goes on (X1 Y1 X2 Y2 ...)
                k = sc["twin_prefix"]
                rest = list(sc["order"])
                head = []
                for c in (0, 1):
                    for _ in range(k):
                        rest.remove(c)
                        head.append(c)
                sc["order"] = d.shuffle(head, "twin-head") + rest
            elif adv not in ("none", "twin") and sc["order"].index(0) < sc["order"].index(1):
                i, j = sc["order"].index(0), sc["order"].index(1)
                sc["order"][i], sc["order"][j] = 1, 0
        sc["lat_mode"] = "conc"
        sc["slow_peer"] = d.chance(0.15, "slow")
        if colang == "1.0" and not sc["out_rails"] and d.chance(0.5, "streaming"):
            # some conversations consume their reply through a streaming handler of their own (what stream_async does);
            # the text a handler delivers belongs to the reply of that conversation and to no other
            sc["streaming"] = True
            sc["chunk_seed"] = d.randint(0, 1 << 30, "chunkseed")
            for c, conv in enumerate(sc["convs"]):
                conv["stream"] = d.chance(0.6, "stream", c)
        return sc

    # ---------------------------------------------------------------------------------------
    def _run(self, sc, only=None, tr=None):
        """Serve the scenario on one world. only=None: all conversations per family; only=c: that
        conversation alone (reference)."""
        holder = {}

        def clock():
            lp = holder.get("loop")
            return lp.time() if lp is not None else 0.0

        d = Draws(sc.get("lat_seed", 0))
        slow = 100.0 if sc.get("slow_peer") and only is None else 1.0

        def llm_lat(call):
            # keyed by the conversation and the number of the call within it - NOT by the task label, which is read from a context
            # variable that single-call streaming leaves unset (the label then is whatever an earlier call left in the context)
            return d.choice(CONC_GRID, "llm", call.conv, sum(1 for x in world.llm_world.calls if x.conv == call.conv)) * slow

        def act_lat(kind, name, n):
            return d.choice(SHORT_GRID, "act", llm_peer.conv_var.get(), name, n % 7)

        ctx = seams.SimContext(clock=clock)
        seams.install(ctx)
        seams.reset_run_state(ctx)
        try:
            world = R.RailsWorld(sc, loop_clock=clock, latency=llm_lat, action_latency=act_lat)
            base_params = world.llm._params()
            if sc.get("streaming"):
                cd = Draws(sc.get("chunk_seed", 0))

                def chunker(call, reply):
                    # a pure function of (conversation, number of the call within the conversation, offset): the same chunks alone and shared
                    k = sum(1 for x in world.llm_world.calls if x.conv == call.conv)
                    cuts = [i for i in range(1, len(reply)) if cd.unit("cut", call.conv, k, i) < 0.3]
                    return [reply[a:b] for a, b in zip([0] + cuts, cuts + [len(reply)])]

                world.llm_world.chunker = chunker
            results = {}
            quiescence = []
            in_flight = {"n": 0}
            late_pushes = []
            world.late_pushes = late_pushes

            async def serve_turn(c, t, state_box, msgs):
                turn = sc["convs"][c]["turns"][t]
                opts = None
                if turn.get("temperature") is not None:
                    opts = {"llm_params": {"temperature": turn["temperature"]}}
                in_flight["n"] += 1
                handler = got = ct = None
                if sc.get("streaming") and sc["convs"][c].get("stream"):
                    from nemoguardrails.streaming import StreamingHandler

                    handler, got = StreamingHandler(), []
                    # once its own request has returned, nobody pushes into this handler any more - least of all another conversation
                    real_push = handler.push_chunk

                    async def spy_push(chunk, *a, _h=handler, _c=c, _t=t, _real=real_push, **kw):
                        if getattr(_h, "_sim_request_done", False):
                            late_pushes.append((_c, _t, llm_peer.conv_var.get(), chunk if chunk is None or isinstance(chunk, str) else repr(chunk)[:60]))
                        return await _real(chunk, *a, **kw)

                    handler.push_chunk = spy_push

                    async def consume(h=handler, g=got):
                        async for piece in h:
                            g.append(piece)

                    ct = asyncio.ensure_future(consume())
                if sc["colang"] == "1.0":
                    if t == 0 and turn.get("prefix_messages"):
                        msgs.extend(dict(m) for m in turn["prefix_messages"])
                    if t == 0 and turn.get("pre_context"):
                        msgs.append({"role": "context", "content": dict(turn["pre_context"])})
                    msgs.append({"role": "user", "content": turn["text"]})
                    st, res = await world.generate("c%d" % c, messages=msgs, options=opts, streaming_handler=handler)
                else:
                    st, res = await world.generate("c%d" % c, messages=[{"role": "user", "content": turn["text"]}], state=state_box.get("s") or {}, options=opts)
                in_flight["n"] -= 1
                if handler is not None:
                    handler._sim_request_done = True
                if in_flight["n"] == 0:
                    quiescence.append((round(clock(), 6), world.llm._params()))
                streamed = None
                if ct is not None:
                    # generate_async closes the handler; the consumer then ends by itself within this grace period
                    for _ in range(50):
                        if ct.done():
                            break
                        await asyncio.sleep(0.001)
                    if not ct.done():
                        ct.cancel()
                        try:
                            await ct
                        except asyncio.CancelledError:
                            pass
                    streamed = "".join(x for x in got if x)
                reply = None
                if st == "ok":
                    msg = res
                    if hasattr(res, "response"):
                        if sc["colang"] != "1.0":
                            state_box["s"] = res.state
                        msg = res.response[0] if isinstance(res.response, list) else {"role": "assistant", "content": res.response}
                    content = msg.get("content")
                    if isinstance(content, dict):  # rail exception event: drop fresh identifiers and timestamps
                        content = repr(sorted((k, v) for k, v in content.items() if k not in ("uid", "event_created_at", "source_uid")))
                    reply = (msg.get("role"), content if isinstance(content, str) else repr(content)) + ((("streamed", streamed),) if streamed is not None else ())
                    if sc["colang"] == "1.0" and msg.get("role") == "assistant":
                        msgs.append({"role": "assistant", "content": msg.get("content")})
                else:
                    reply = ("raised", type(res).__name__ + ": " + str(res)[:200])
                    if sc["colang"] == "1.0":
                        msgs.pop()
                results.setdefault(c, []).append(reply)
                if tr is not None:
                    tr.log("reply", c, t, reply, round(clock(), 6))

            async def main(loop):
                holder["loop"] = loop
                convs = range(len(sc["convs"])) if only is None else [only]
                boxes = {c: ({}, []) for c in convs}
                if only is not None or sc["family"] == "seq":
                    if only is not None:
                        order = [only] * len(sc["convs"][only]["turns"])
                    else:
                        order = [c for c in sc["order"] if c < len(sc["convs"])]
                        # after ddmin the order may mention removed turns: keep a valid merge
                        counts = {}
                        fixed = []
                        for c in order:
                            if counts.get(c, 0) < len(sc["convs"][c]["turns"]):
                                fixed.append(c)
                                counts[c] = counts.get(c, 0) + 1
                        for c in convs:
                            fixed += [c] * (len(sc["convs"][c]["turns"]) - counts.get(c, 0))
                        order = fixed
                    pos = {}
                    for c in order:
                        t = pos.get(c, 0)
                        pos[c] = t + 1
                        await serve_turn(c, t, boxes[c][0], boxes[c][1])
                else:
                    async def conv_task(c):
                        conv = sc["convs"][c]
                        if conv.get("start"):
                            await asyncio.sleep(conv["start"])
                        for t in range(len(conv["turns"])):
                            await serve_turn(c, t, boxes[c][0], boxes[c][1])
                            th = conv.get("think", [0.0] * 9)[t] if t < len(conv.get("think", [])) else 0.0
                            if th:
                                await asyncio.sleep(th)

                    await asyncio.gather(*[asyncio.ensure_future(conv_task(c)) for c in convs])
                return loop.time()

            t_end, loop = run_sim(main, start_time=1000.0, max_iterations=600000)
            world.sim_seconds = t_end - 1000.0
            return world, results, quiescence, base_params
        finally:
            seams.uninstall()

    def execute(self, sc):
        out = Outcome()
        tr = Trace(sc.get("run_seed"))
        cc = cfgclass(sc)
        world, results, quiescence, base = self._run(sc, tr=tr)
        calls = world.llm_world.calls
        out.sim_seconds = world.sim_seconds
        out.probe("concurrent_execution" if sc["family"] == "conc" else "sequential_interleaving")
        # overlap bookkeeping
        overlapped_calls = set()
        for (a, b) in world.llm_world.overlaps:
            if calls[a].conv != calls[b].conv:
                overlapped_calls.add(a)
                overlapped_calls.add(b)
        if overlapped_calls:
            out.probe("llm_calls_overlapped")
        collisions = _key_collisions(sc, results)
        if collisions:
            out.probe("cache_key_collision_in_scenario")
        if sc.get("adversarial") == "twin":
            out.probe("twin_prefix_conversations")
        if sc.get("streaming") and sum(1 for cv in sc["convs"] if cv.get("stream")) >= 1:
            out.probe("streamed_conversations")
        # a streaming handler belongs to one request: pushes after that request returned come from somebody else's request
        for (c0_, t0_, by, chunk) in getattr(world, "late_pushes", [])[:1]:
            out.violate("stream-received-foreign-tokens", "%s:%s" % (cc, sc["family"]),
                        "the streaming handler of conversation %d turn %d received %r after its request had returned, while a request of %s was being served (%d such pushes)" % (c0_, t0_, chunk, by, len(world.late_pushes)))
        # per conversation reference on a fresh instance
        per_conv_calls = {}
        for cl in calls:
            per_conv_calls.setdefault(cl.conv, []).append(cl)
        out.evaluations = 1
        for c in range(len(sc["convs"])):
            rw, rres, rq, rbase = self._run(sc, only=c)
            out.evaluations += 1
            ref_calls = [x for x in rw.llm_world.calls if x.conv == "c%d" % c]
            got_calls = per_conv_calls.get("c%d" % c, [])
            got_replies, ref_replies = results.get(c, []), rres.get(c, [])
            tr.log("ref", c, ref_replies)
            coll = [k for k in collisions if c in k[1]]
            twin = None
            if sc.get("adversarial") == "twin" and c in (0, 1):
                # F18: the events-cache key contains the per-request options message, so a conversation whose consecutive
                # requests carry different options never finds its own history - unless a twin left a matching entry
                temps = [[t.get("temperature") for t in sc["convs"][x]["turns"]] for x in (0, 1)]
                twin = "twin-prefix-options-vary" if any(ts[i] != ts[i - 1] for ts in temps for i in range(1, len(ts))) else "twin-prefix"
            for t, (g, r) in enumerate(zip(got_replies, ref_replies)):
                if g != r:
                    why = "cache-collision" if coll else twin if twin else ("overlap" if any(x.n in overlapped_calls for x in got_calls) else "no-overlap")
                    out.violate("reply-differs", "%s:%s" % (cc, why),
                                "conversation %d turn %d: shared instance replied %r, alone on a fresh instance it replies %r%s"
                                % (c, t, g, r, ("; colliding cache keys: %r" % (coll[0][0],)) if coll else ""))
                    break
            gp = [(x.task, x.prompt if isinstance(x.prompt, str) else repr(x.prompt)) for x in got_calls]
            rp = [(x.task, x.prompt if isinstance(x.prompt, str) else repr(x.prompt)) for x in ref_calls]
            # the prompts are compared, not the task labels (instrumentation: the label of an unlabelled call is inherited from the context)
            if [p_ for _t, p_ in gp] != [p_ for _t, p_ in rp]:
                k = next((i for i, (a, b) in enumerate(zip(gp, rp)) if a[1] != b[1]), min(len(gp), len(rp)))
                why = "cache-collision" if coll else twin if twin else ("overlap" if any(x.n in overlapped_calls for x in got_calls) else "no-overlap")
                a = gp[k] if k < len(gp) else None
                b = rp[k] if k < len(rp) else None
                out.violate("prompts-differ", "%s:%s" % (cc, why),
                            "conversation %d: LLM call %d on the shared instance was %s, alone it is %s%s"
                            % (c, k, _brief_call(a), _brief_call(b), ("; colliding cache keys: %r" % (coll[0][0],)) if coll else ""))
            else:
                # a streamed single-call LLM call is started as a task inside its llm_params block and may outlive the block (the block
                # ends when the first two lines have arrived): what the parameters are later in such a call depends on the token timing
                # of the conversation itself, alone as well - only the parameters the call is STARTED with are compared there
                phases = ("params_enter",) if (sc.get("streaming") and sc["convs"][c].get("stream")) else ("params_enter", "params_mid", "params_exit")
                for k, (x, y) in enumerate(zip(got_calls, ref_calls)):
                    for phase in phases:
                        gx, ry = getattr(x, phase, None), getattr(y, phase, None)
                        if gx != ry and gx is not None and ry is not None:
                            # the shared LLM object stays polluted once two requests were in flight together
                            ov = "overlap" if _requests_overlapped_before(world, x.t_exit or x.t_enter) else "no-overlap"
                            if ov == "overlap":
                                out.probe("llm_params_blocks_overlapped")
                            out.violate("param-at-call", "%s:%s" % (ov, x.task),
                                        "conversation %d LLM call %d (%s) ran with %r at %s on the shared instance; alone it runs with %r. Overlapping calls: %s"
                                        % (c, k, x.task, _p(gx), phase[7:], _p(ry), _overlaps_of(world, x)))
                            break
                    else:
                        continue
                    break
        # quiescence: whenever no request is in flight the LLM object's parameters are the configured ones
        for (tq, params) in quiescence:
            if params != base:
                ov = "after-overlap" if _requests_overlapped_before(world, tq) else "no-overlap"
                out.violate("param-at-quiescence", ov, "at t=%.3f no request was in flight but the LLM parameters were %r (configured %r)" % (tq - 1000.0, _p(params), _p(base)))
                break
        if world.llm._params() != base and not any(v.oracle == "param-at-quiescence" for v in out.violations):
            out.violate("param-at-quiescence", "after-overlap" if _requests_overlapped_before(world, float("inf")) else "no-overlap", "after all requests finished the LLM parameters are %r (configured %r)" % (_p(world.llm._params()), _p(base)))
        out.digest = tr.digest()
        order = tuple((h["conv"], h["kind"], h["name"]) for h in world.history if h["kind"] in ("llm", "llm_exit", "rail", "dialog"))
        out.interleaving = (cc, order)
        if overlapped_calls or collisions:
            out.nontrivial_sigs.append(out.interleaving)
        out.sample = {"config": {k: sc[k] for k in ("colang", "mode", "in_rails", "out_rails")}, "family": sc["family"], "adversarial": sc.get("adversarial"),
                      "conversations": [[(t["text"][:60], t.get("temperature")) for t in cv["turns"]] for cv in sc["convs"]],
                      "overlapping_llm_call_pairs": len(world.llm_world.overlaps), "cross_conversation_order_head": [list(x) for x in order[:14]]}
        return out

    def shrink(self, sc):
        for c in super().shrink(sc):
            yield c
        if sc.get("slow_peer"):
            c = copy.deepcopy(sc)
            c["slow_peer"] = False
            yield c
        for ci, conv in enumerate(sc["convs"]):
            for ti, turn in enumerate(conv["turns"]):
                if turn.get("temperature") is not None:
                    c = copy.deepcopy(sc)
                    del c["convs"][ci]["turns"][ti]["temperature"]
                    yield c
            if conv.get("start"):
                c = copy.deepcopy(sc)
                c["convs"][ci]["start"] = 0.0
                yield c

    def same_class(self, a, b):
        return a.oracle == b.oracle and a.sig.split(":")[-1] == b.sig.split(":")[-1]


def _requests_overlapped_before(world, t):
    """True if two requests of different conversations were in flight at the same time at some
    moment <= t (then two llm_params blocks may have interleaved on the shared LLM object)."""
    open_req = {}
    for h in world.history:
        if h["kind"] != "request":
            continue
        if h["t"] > t + 1e-9:
            break
        if h["name"] == "begin":
            if any(c != h["conv"] for c in open_req):
                return True
            open_req[h["conv"]] = open_req.get(h["conv"], 0) + 1
        else:
            n = open_req.get(h["conv"], 0) - 1
            if n <= 0:
                open_req.pop(h["conv"], None)
            else:
                open_req[h["conv"]] = n
    return False


def _p(params):
    return {k: v for k, v in (params or {}).items() if k != "model_kwargs" or v}


def _brief_call(x):
    if x is None:
        return "absent"
    return "%s with prompt ...%r" % (x[0], x[1][-160:])


def _overlaps_of(world, x):
    calls = world.llm_world.calls
    out = []
    for (a, b) in world.llm_world.overlaps:
        if x.n in (a, b):
            o = calls[b if a == x.n else a]
            out.append("%s/%s[t=%.3f..%.3f]" % (o.conv, o.task, o.t_enter - 1000.0, (o.t_exit or 0) - 1000.0))
    return ", ".join(out[:4]) or "none"


def _expected_first_reply(sc, turn):
    """Reply of a first turn in the fault-free reference pipeline (rails-only/passthrough modes)."""
    resp = R.Responder(sc)
    tok = turn["tok"]
    return resp.llm_text(tok, "g")


def _key_collisions(sc, results):
    """Distinct message lists of the scenario (prefixes actually presented to the instance) that
    have the same history cache key."""
    if sc["colang"] != "1.0":
        return []
    from nemoguardrails.rails.llm.utils import get_history_cache_key

    seen = {}
    out = []
    for c, conv in enumerate(sc["convs"]):
        msgs = []
        reps = results.get(c, [])
        for t, turn in enumerate(conv["turns"]):
            if t == 0 and turn.get("prefix_messages"):
                msgs.extend(dict(m) for m in turn["prefix_messages"])
            if t == 0 and turn.get("pre_context"):
                msgs.append({"role": "context", "content": dict(turn["pre_context"])})
            msgs.append({"role": "user", "content": turn["text"]})
            if t < len(reps) and reps[t][0] == "assistant":
                msgs.append({"role": "assistant", "content": reps[t][1]})
            for p in range(1, len(msgs) + 1):
                key = get_history_cache_key(msgs[:p])
                canon = tuple((m["role"], m["content"]) for m in msgs[:p])
                if key in seen and seen[key][0] != canon:
                    out.append((key, (seen[key][1], c)))
                else:
                    seen.setdefault(key, (canon, c))
    return out


PROP = C15()
