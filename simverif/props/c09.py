"""C09 - after each event the interpreter is quiescent and its dispatch index is exact.

State invariants recomputed from scratch after every simulated step: random programs under the
SimClient (with action-event faults and clock gaps), shipped library flows, and an exhaustive
enumeration of all event histories up to length L over a small alphabet for small programs."""
import itertools
import os

from ..gen import colang2 as G
from ..kernel import control
from ..kernel.draws import Draws
from ..kernel.trace import Trace
from ..worlds import interp as I
from ..worlds import interp_run as IR
from .base import Outcome
from .interp_base import InterpProp, gen_interp_scenario, program_brief

LIB_MAIN = '''
flow main
  activate greeting
  activate echo
  activate patience
  match Never()

flow greeting
  user said "hi"
  bot say "hello"
  wait 2.0
  bot inform "done waiting"

flow echo
  user said something as $ref
  bot respond "you said something"

flow patience
  user was silent 6.0
  bot ask "still there?"
'''

# the avatar library: interruption handling, posture management (flows in loops of their own that track the talking state),
# gestures and a choice dialog
LIB_MAIN_AVATAR = '''
flow main
  activate tracking bot talking state
  activate tracking user talking state
  activate handling bot talking interruption $mode="inform"
  activate managing bot postures
  activate gesture reaction
  activate choice dialog
  activate small talk
  match Never()

flow gesture reaction
  user gestured "wave"
  bot gesture "wave back"
  bot say "hello there, this is a rather long sentence that somebody may talk over"

flow choice dialog
  user said "menu"
  start scene show choice $prompt="pick one" $options=[{"id": "a", "text": "first"}, {"id": "b", "text": "second"}]
  user selected choice "a"
  bot say "first it is"

flow small talk
  user said "hi"
  bot gesture with delay "nod" 1.0
  bot express "hello"
'''

# the notification flows for Colang errors / undefined flows / unexpected utterances, and the other timing flows
LIB_MAIN_NOTIFY = '''
flow main
  activate notification of colang errors
  activate notification of undefined flow start
  activate notification of unexpected user utterance
  activate faulty
  activate ghost starter
  activate silence watch
  activate nagging
  activate greeting
  match Never()

flow faulty
  user said "break"
  $x = 1 / 0
  bot say "never said"

flow ghost starter
  user said "ghost"
  send StartFlow(flow_id="no such flow")
  bot say "asked for a ghost"

flow silence watch
  user didnt respond 3.0
  bot ask "hello?"

flow nagging
  bot was silent 5.0
  bot inform "still here"

flow greeting
  user said "hi"
  bot say "hello"
'''

LIB_VARIANTS = [(("core.co", "timing.co"), LIB_MAIN), (("core.co", "timing.co", "avatars.co"), LIB_MAIN_AVATAR), (("core.co", "timing.co"), LIB_MAIN_NOTIFY)]
_lib_cache = {}


def library_program(variant=0):
    if variant not in _lib_cache:
        import nemoguardrails

        base = os.path.join(os.path.dirname(nemoguardrails.__file__), "colang", "v2_x", "library")
        files, main = LIB_VARIANTS[variant]
        parts = []
        for name in files:
            with open(os.path.join(base, name)) as f:
                parts.append("\n".join(l for l in f.read().split("\n") if not l.startswith("import ")))
        _lib_cache[variant] = "\n".join(parts) + "\n" + main
    return _lib_cache[variant]


def library_delivery(d, i, variant):
    """One external event for the library batch: final / interim user utterances, and for the avatar variant gestures and choices."""
    kinds = [("said", 6), ("saying", 2), ("started", 1)]
    if variant == 1:
        kinds += [("gesture", 2), ("choice", 2)]
    k = d.weighted(kinds, "lk", i)
    texts = USER_TEXTS + (["menu", "stop", "please stop talking now, I want to say something"] if variant == 1 else ["break", "ghost", "unexpected words"] if variant == 2 else [])
    if k == "said":
        return {"type": "UtteranceUserActionFinished", "final_transcript": d.choice(texts, "ut", i), "action_uid": "user-%d" % i, "is_success": True}
    if k == "saying":
        return {"type": "UtteranceUserActionTranscriptUpdated", "interim_transcript": d.choice(texts, "ut", i), "action_uid": "user-%d" % i}
    if k == "started":
        return {"type": "UtteranceUserActionStarted", "action_uid": "user-%d" % i}
    if k == "gesture":
        return {"type": "GestureUserActionFinished", "gesture": d.choice(["wave", "nod"], "ug", i), "action_uid": "gest-%d" % i, "is_success": True}
    return {"type": "VisualChoiceSceneActionChoiceUpdated", "current_choice": [d.choice(["a", "b"], "uc", i)], "action_uid": "choice-%d" % i}


USER_TEXTS = ["hi", "something else", "hi", ""]


class C09(InterpProp):
    id = "C09"
    level = "exploration"
    technique = "deterministic simulation of the Colang 2 interpreter as an event-driven node (SimClient delivers user and action events with delays/drops/duplicates, virtual clock, decided tie-breaks); state invariants recomputed from scratch after every step; exhaustive histories for small alphabets"
    rule = ("three batches: (a) random programs of the grammar (start/await/activate/when/groups/if/while/actions/abort) driven by seeded user events and a UMIM client that delivers "
            "Started/Finished late, early, never or twice, with clock gaps up to 30 s; (b) the shipped core+timing+avatars libraries in three arrangements (dialog with timers; posture/interruption management, gestures, choice dialog; error/undefined-flow/unexpected-utterance notifications) with final and interim user utterances, gestures, choices and timers; (c) ALL event histories up to length L "
            "over an alphabet of <= 4 events for small programs. evaluations = processed external events; non-trivial = steps that moved at least one head or changed a flow status; "
            "distinct = distinct normalised interpreter states (flow ids, statuses, head positions)")
    exhaustive_parts = ["all event histories up to length 4 (quick) / 5 (thorough) over {E1, E2, E3(x=1), E3(x=2)} for the small programs of batch (c)"]
    expected_probes = ["batch_random", "state_restored_between_events", "batch_library", "library_variant_1", "library_variant_2", "batch_exhaustive", "cleanup_removed_flows", "tie_break_decided", "action_fault_delivered"]
    quick_runs = 1600
    thorough_runs = 120000

    def generate(self, d, index, tier):
        kind = d.weighted([("random", 7), ("library", 1), ("exhaustive", 2 if tier == "quick" else 1)], "batch")
        if kind == "random":
            sc = gen_interp_scenario(d, finishing_main=True)
            if d.chance(0.2, "restores"):
                # the state is saved and restored (JSON round trip) between events at seeded points: a restored state is a state,
                # its dispatch index has to be as exact as the live one's
                sc["restore_seed"] = d.randint(0, 1 << 30, "restore_seed")
        elif kind == "library":
            n = d.randint(2, 8, "n")
            variant = d.randint(0, len(LIB_VARIANTS) - 1, "libvariant")
            if variant == 0:
                dels = [{"type": "UtteranceUserActionFinished", "final_transcript": d.choice(USER_TEXTS, "ut", i), "action_uid": "user-%d" % i, "is_success": True} for i in range(n)]
            else:
                dels = [library_delivery(d, i, variant) for i in range(n + 2)]
            sc = {"program_text": "LIBRARY", "lib_variant": variant, "deliveries": dels, "client": {"seed": d.randint(0, 1 << 30, "cs"), "faults": [f for f in ("late", "dup", "never") if d.chance(0.3, "lf", f)]},
                  "tie_seed": d.randint(0, 1 << 30, "ts"), "gap_seed": d.randint(0, 1 << 30, "gs")}
        else:
            sc = gen_interp_scenario(d, with_faults=False, n_flows=d.randint(2, 3, "nf"), allow_actions=False, max_body=3, finishing_main=True)
            sc["deliveries"] = []
            sc["exhaustive_len"] = 4 if tier == "quick" else 5
            sc["gaps"] = False
        sc["batch"] = kind
        return sc

    def execute(self, sc):
        out = Outcome()
        tr = Trace(sc.get("run_seed"))
        out.probe("batch_" + sc.get("batch", "random"))
        if sc.get("batch") == "library":
            sc = dict(sc)
            sc["program_text"] = library_program(sc.get("lib_variant", 0))
            out.probe("library_variant_%d" % sc.get("lib_variant", 0))
        if sc.get("batch") == "exhaustive" and sc.get("exhaustive_len"):
            alphabet = [{"type": "E1"}, {"type": "E2"}, {"type": "E3", "x": 1}, {"type": "E3", "x": 2}]
            out.evaluations = 0
            for L in range(1, sc["exhaustive_len"] + 1):
                for hist in itertools.product(range(len(alphabet)), repeat=L):
                    if L < sc["exhaustive_len"]:
                        continue  # prefixes are covered step by step inside the longer histories
                    s2 = dict(sc)
                    s2["deliveries"] = [dict(alphabet[i]) for i in hist]
                    self._one(s2, out, tr, keep_sample=False)
                    if out.violations:
                        out.violations[-1].pin = {"deliveries": s2["deliveries"], "batch": "random", "exhaustive_len": 0}
                        break
                if out.violations:
                    break
        else:
            out.evaluations = 0
            self._one(sc, out, tr, keep_sample=True)
        out.digest = tr.digest()
        return out

    def _one(self, sc, out, tr, keep_sample):
        n_before = {"flows": None}
        moved = {"n": 0}

        rd = Draws(sc["restore_seed"]) if sc.get("restore_seed") is not None else None

        def hook(res, rec):
            st = res.interp.state
            out.evaluations += 1
            if rd is not None and rd.chance(0.3, "restore", out.evaluations):
                try:
                    from nemoguardrails.colang.v2_x.runtime.serialization import json_to_state, state_to_json

                    st = json_to_state(state_to_json(st))
                    st.internal_events = I.CountingDeque(st.internal_events)
                    res.interp.state = st
                    out.probe("state_restored_between_events")
                except control.SimControl:
                    raise
                except Exception:
                    pass  # what can be serialised is C11's subject
            sig = I.state_signature(st)
            out.state_sigs.append(sig)
            if rec.out or rec.steps > 2:
                out.nontrivial_sigs.append(sig)
            if n_before["flows"] is not None and len(st.flow_states) < n_before["flows"]:
                out.probe("cleanup_removed_flows")
            n_before["flows"] = len(st.flow_states)
            if rec.tag and rec.tag[0] in ("finished-dup", "finished-early", "started-late", "finished-late", "finished-after-stop"):
                out.probe("action_fault_delivered")
            for (clause, detail) in I.check_quiescence(st):
                sig2 = clause
                if clause.startswith("dangling"):
                    sig2 = clause + (":after-cleanup" if rec.t >= 5.0 else ":no-cleanup")
                out.violate("quiescence", sig2, "after processing %s at t=%.3f: %s" % (IR._norm_event(rec.event), rec.t, detail))

        res = IR.run_program(sc, hooks=[hook], tr=tr)
        out.steps += res.total_internal
        out.sim_seconds += res.sim_seconds
        if res.choices:
            out.probe("tie_break_decided", len(res.choices))
        for k, v in res.action_faults.items():
            if k != "normal":
                out.fault("action_" + k, v)
        if res.error:
            kind, e = res.error
            if kind == "load":
                out.inconclusive = "program did not load: %s" % type(e).__name__
            elif kind == "budget":
                out.inconclusive = "step budget exceeded (C10's subject)"
            else:
                # an exception escaping run_to_completion is C10/C11's subject; here only dangling references count
                if isinstance(e, KeyError):
                    out.violate("quiescence", "dangling-reference-crash:%s" % ("after-cleanup" if res.error_t >= 5.0 else "no-cleanup"),
                                "run_to_completion raised KeyError(%s): a running flow referenced a flow/action that no longer exists" % e)
                else:
                    out.inconclusive = "run_to_completion raised %s" % type(e).__name__
        if keep_sample:
            out.sample = {"batch": sc.get("batch"), "program": program_brief(sc) if sc.get("batch") != "library" else "<%s>" % " + ".join(LIB_VARIANTS[sc.get("lib_variant", 0)][0]) + LIB_VARIANTS[sc.get("lib_variant", 0)][1], "deliveries": sc["deliveries"][:8],
                          "client_faults": sc["client"]["faults"], "steps": len(res.steps)}
        out.interleaving = tuple((IR._norm_event(r.event).get("type") if isinstance(r.event, dict) else r.event) for r in res.steps)

    def same_class(self, a, b):
        return a.oracle == b.oracle and a.sig.split(":")[0] == b.sig.split(":")[0]


PROP = C09()
