"""C09 - after each event the interpreter is quiescent and its dispatch index is exact.

State invariants recomputed from scratch after every simulated step: random programs under the
SimClient (with action-event faults and clock gaps), shipped library flows, and an exhaustive
enumeration of all event histories up to length L over a small alphabet for small programs."""
import itertools
import os

from ..gen import colang2 as G
from ..kernel import control
from ..kernel.trace import Trace
from ..worlds import interp as I
from ..worlds import interp_run as IR
from .base import Outcome
from .interp_base import InterpProp, gen_interp_scenario, program_brief

LIB_MAIN = '''
flow main
  activate greeting
  activate echo
  activate patience
  match Never()

flow greeting
  user said "hi"
  bot say "hello"
  wait 2.0
  bot inform "done waiting"

flow echo
  user said something as $ref
  bot respond "you said something"

flow patience
  user was silent 6.0
  bot ask "still there?"
'''

_lib_cache = {}


def library_program():
    if "t" not in _lib_cache:
        import nemoguardrails

        base = os.path.join(os.path.dirname(nemoguardrails.__file__), "colang", "v2_x", "library")
        parts = []
        for name in ("core.co", "timing.co"):
            with open(os.path.join(base, name)) as f:
                parts.append("\n".join(l for l in f.read().split("\n") if not l.startswith("import ")))
        _lib_cache["t"] = "\n".join(parts) + "\n" + LIB_MAIN
    return _lib_cache["t"]


USER_TEXTS = ["hi", "something else", "hi", ""]


class C09(InterpProp):
    id = "C09"
    level = "exploration"
    technique = "deterministic simulation of the Colang 2 interpreter as an event-driven node (SimClient delivers user and action events with delays/drops/duplicates, virtual clock, decided tie-breaks); state invariants recomputed from scratch after every step; exhaustive histories for small alphabets"
    rule = ("three batches: (a) random programs of the grammar (start/await/activate/when/groups/if/while/actions/abort) driven by seeded user events and a UMIM client that delivers "
            "Started/Finished late, early, never or twice, with clock gaps up to 30 s; (b) the shipped core+timing libraries with user utterances and timers; (c) ALL event histories up to length L "
            "over an alphabet of <= 4 events for small programs. evaluations = processed external events; non-trivial = steps that moved at least one head or changed a flow status; "
            "distinct = distinct normalised interpreter states (flow ids, statuses, head positions)")
    exhaustive_parts = ["all event histories up to length 4 (quick) / 5 (thorough) over {E1, E2, E3(x=1), E3(x=2)} for the small programs of batch (c)"]
    expected_probes = ["batch_random", "batch_library", "batch_exhaustive", "cleanup_removed_flows", "tie_break_decided", "action_fault_delivered"]
    quick_runs = 1600
    thorough_runs = 120000

    def generate(self, d, index, tier):
        kind = d.weighted([("random", 7), ("library", 1), ("exhaustive", 2 if tier == "quick" else 1)], "batch")
        if kind == "random":
            sc = gen_interp_scenario(d, finishing_main=True)
        elif kind == "library":
            n = d.randint(2, 8, "n")
            dels = [{"type": "UtteranceUserActionFinished", "final_transcript": d.choice(USER_TEXTS, "ut", i), "action_uid": "user-%d" % i, "is_success": True} for i in range(n)]
            sc = {"program_text": "LIBRARY", "deliveries": dels, "client": {"seed": d.randint(0, 1 << 30, "cs"), "faults": [f for f in ("late", "dup", "never") if d.chance(0.3, "lf", f)]},
                  "tie_seed": d.randint(0, 1 << 30, "ts"), "gap_seed": d.randint(0, 1 << 30, "gs")}
        else:
            sc = gen_interp_scenario(d, with_faults=False, n_flows=d.randint(2, 3, "nf"), allow_actions=False, max_body=3, finishing_main=True)
            sc["deliveries"] = []
            sc["exhaustive_len"] = 4 if tier == "quick" else 5
            sc["gaps"] = False
        sc["batch"] = kind
        return sc

    def execute(self, sc):
        out = Outcome()
        tr = Trace(sc.get("run_seed"))
        out.probe("batch_" + sc.get("batch", "random"))
        if sc.get("batch") == "library":
            sc = dict(sc)
            sc["program_text"] = library_program()
        if sc.get("batch") == "exhaustive" and sc.get("exhaustive_len"):
            alphabet = [{"type": "E1"}, {"type": "E2"}, {"type": "E3", "x": 1}, {"type": "E3", "x": 2}]
            out.evaluations = 0
            for L in range(1, sc["exhaustive_len"] + 1):
                for hist in itertools.product(range(len(alphabet)), repeat=L):
                    if L < sc["exhaustive_len"]:
                        continue  # prefixes are covered step by step inside the longer histories
                    s2 = dict(sc)
                    s2["deliveries"] = [dict(alphabet[i]) for i in hist]
                    self._one(s2, out, tr, keep_sample=False)
                    if out.violations:
                        out.violations[-1].pin = {"deliveries": s2["deliveries"], "batch": "random", "exhaustive_len": 0}
                        break
                if out.violations:
                    break
        else:
            out.evaluations = 0
            self._one(sc, out, tr, keep_sample=True)
        out.digest = tr.digest()
        return out

    def _one(self, sc, out, tr, keep_sample):
        n_before = {"flows": None}
        moved = {"n": 0}

        def hook(res, rec):
            st = res.interp.state
            out.evaluations += 1
            sig = I.state_signature(st)
            out.state_sigs.append(sig)
            if rec.out or rec.steps > 2:
                out.nontrivial_sigs.append(sig)
            if n_before["flows"] is not None and len(st.flow_states) < n_before["flows"]:
                out.probe("cleanup_removed_flows")
            n_before["flows"] = len(st.flow_states)
            if rec.tag and rec.tag[0] in ("finished-dup", "finished-early", "started-late", "finished-late", "finished-after-stop"):
                out.probe("action_fault_delivered")
            for (clause, detail) in I.check_quiescence(st):
                sig2 = clause
                if clause.startswith("dangling"):
                    sig2 = clause + (":after-cleanup" if rec.t >= 5.0 else ":no-cleanup")
                out.violate("quiescence", sig2, "after processing %s at t=%.3f: %s" % (IR._norm_event(rec.event), rec.t, detail))

        res = IR.run_program(sc, hooks=[hook], tr=tr)
        out.steps += res.total_internal
        out.sim_seconds += res.sim_seconds
        if res.choices:
            out.probe("tie_break_decided", len(res.choices))
        for k, v in res.action_faults.items():
            if k != "normal":
                out.fault("action_" + k, v)
        if res.error:
            kind, e = res.error
            if kind == "load":
                out.inconclusive = "program did not load: %s" % type(e).__name__
            elif kind == "budget":
                out.inconclusive = "step budget exceeded (C10's subject)"
            else:
                # an exception escaping run_to_completion is C10/C11's subject; here only dangling references count
                if isinstance(e, KeyError):
                    out.violate("quiescence", "dangling-reference-crash:%s" % ("after-cleanup" if res.error_t >= 5.0 else "no-cleanup"),
                                "run_to_completion raised KeyError(%s): a running flow referenced a flow/action that no longer exists" % e)
                else:
                    out.inconclusive = "run_to_completion raised %s" % type(e).__name__
        if keep_sample:
            out.sample = {"batch": sc.get("batch"), "program": program_brief(sc) if sc.get("batch") != "library" else "<core.co + timing.co>" + LIB_MAIN, "deliveries": sc["deliveries"][:8],
                          "client_faults": sc["client"]["faults"], "steps": len(res.steps)}
        out.interleaving = tuple((IR._norm_event(r.event).get("type") if isinstance(r.event, dict) else r.event) for r in res.steps)

    def same_class(self, a, b):
        return a.oracle == b.oracle and a.sig.split(":")[0] == b.sig.split(":")[0]


PROP = C09()
