"""Shared scenario generator / runner for the INTERP-world properties (C06, C09, C10, C11)."""
import copy

from ..gen import colang2 as G
from ..kernel import control
from ..kernel.trace import Trace
from ..worlds import interp as I
from ..worlds import interp_run as IR
from .base import Outcome, Prop

INTERP_COMPONENTS = {
    "real": ["colang v2_x parser + expansion (lang/*)", "colang v2_x runtime statemachine.py / flows.py / eval.py (run_to_completion, slide, abort/finish, activation restart, action conflict resolution, clean-up)",
             "runtime/serialization.py (C11)", "shipped library core.co (library sub-batch)"],
    "stub": ["UMIM client / action server (SimClient: reacts to Start/Stop action events with Started/Finished deliveries - delayed, dropped, duplicated, early)", "user (seeded external events)",
             "wall clock (datetime.now seam on virtual time)", "uuid generator", "interpreter tie-breaks (statemachine.random.choice seam)", "internal event queue wrapper (counting deque for step budgets)"],
}
ACTION_FAULTS = ["never", "dup", "early", "late", "no_started", "started_late", "stop_reacts"]


def gen_interp_scenario(d, with_faults=True, n_flows=None, instant_end=False, max_deliveries=14, few_events=False, **kw):
    events = None
    if few_events:
        k = d.randint(1, 2, "nev")
        events = d.sample(list(G.EVENTS), k, "evsubset")
    prog = G.gen_program(d, n_flows=n_flows, instant_end=instant_end, events=events, **kw)
    faults = []
    if with_faults and d.chance(0.6, "faulty"):
        faults = [f for f in ACTION_FAULTS if d.chance(0.5, "fk", f)]
    return {
        "program": prog,
        "deliveries": G.gen_deliveries(d, d.randint(2, max_deliveries, "nd"), events=events),
        "client": {"seed": d.randint(0, 1 << 30, "cseed"), "faults": faults},
        "tie_seed": d.randint(0, 1 << 30, "tseed"),
        "gap_seed": d.randint(0, 1 << 30, "gseed"),
    }


class InterpProp(Prop):
    world = "INTERP"
    components = INTERP_COMPONENTS
    ddmin_paths = [("deliveries",), ("program", "flows"), ("program", "flows", "*", "body"), ("client", "faults")]
    chunk = 40
    run_timeout_s = 240.0

    def setup_process(self):
        import logging

        logging.disable(logging.CRITICAL)

    def shrink(self, sc):
        # nested bodies
        prog = sc.get("program")
        if not prog:
            return
        for fi, fl in enumerate(prog["flows"]):
            for si, s in enumerate(fl["body"]):
                for sub in _sub_bodies(s):
                    if sub:
                        for k in range(len(sub)):
                            c = copy.deepcopy(sc)
                            tgt = _sub_bodies(c["program"]["flows"][fi]["body"][si])
                            for tb in tgt:
                                if len(tb) == len(sub) and tb == sub:
                                    del tb[k]
                                    break
                            yield c
            if fl.get("decorators"):
                c = copy.deepcopy(sc)
                c["program"]["flows"][fi]["decorators"] = []
                yield c
        if sc.get("gaps", True):
            c = copy.deepcopy(sc)
            c["gaps"] = False
            yield c
        for i, ev in enumerate(sc.get("deliveries", [])):
            if "x" in ev:
                c = copy.deepcopy(sc)
                del c["deliveries"][i]["x"]
                yield c


def _sub_bodies(s):
    if s["k"] == "when":
        return [c["body"] for c in s["cases"]] + ([s["else"]] if s.get("else") else [])
    if s["k"] == "if":
        return [s["then"]] + ([s["else"]] if s.get("else") else [])
    if s["k"] == "while":
        return [s["body"]]
    return []


def program_brief(sc, limit=900):
    t = IR.program_text(sc)
    return t if len(t) <= limit else t[:limit] + "\n..."
