"""Interface every property module implements.

A property module exposes ``PROP = SomeProp()``.

* ``generate(draws, index, tier)`` -> scenario: a JSON-serialisable dict that is completely
  explicit (program/config text, operations, faults, decisions).  One run seed = one scenario.
* ``execute(scenario)`` -> Outcome.  Pure function of the scenario and the code under test.
* ``shrink(scenario)`` -> iterable of strictly smaller candidate scenarios (tried by the minimiser
  in addition to generic ddmin over ``ddmin_paths``).
"""


class Violation:
    __slots__ = ("oracle", "sig", "narrative", "pin")

    def __init__(self, oracle, sig, narrative="", pin=None):
        # pin: optional dict merged into the scenario to make the violating choice explicit
        # (e.g. the one fault of an enumeration), tried first by the minimiser
        self.oracle, self.sig, self.narrative, self.pin = oracle, str(sig), narrative, pin

    def key(self):
        return (self.oracle, self.sig)

    def to_json(self):
        return {"oracle": self.oracle, "signature": self.sig, "narrative": self.narrative}

    def __repr__(self):
        return "Violation(%s:%s)" % (self.oracle, self.sig)


class Outcome:
    def __init__(self):
        self.violations = []  # list[Violation]
        self.digest = ""
        self.evaluations = 1  # simulated executions inside this scenario (enumerations count > 1)
        self.nontrivial_sigs = []  # signatures of non-trivial cases reached (distinctness measured on them)
        self.interleaving = None  # hash of the order of seam events across tasks
        self.state_sigs = []  # hashes of normalised interpreter states / other reach measures
        self.probes = {}  # name -> count
        self.faults = {}  # kind -> number actually fired
        self.sim_seconds = 0.0
        self.inconclusive = None  # reason string when the run could not decide
        self.sample = None  # compact description for evidence samples
        self.steps = 0

    def probe(self, name, n=1):
        self.probes[name] = self.probes.get(name, 0) + n

    def fault(self, kind, n=1):
        self.faults[kind] = self.faults.get(kind, 0) + n

    def violate(self, oracle, sig, narrative="", pin=None):
        self.violations.append(Violation(oracle, sig, narrative, pin))


class Prop:
    id = "C00"
    level = "exploration"
    world = ""
    technique = "deterministic simulation"
    rule = ""
    components = {"real": [], "stub": []}
    assumptions = []
    exhaustive_parts = []
    ddmin_paths = []  # list of paths (tuples of keys) to lists inside the scenario
    run_timeout_s = 60.0
    quick_runs = 100
    thorough_runs = 5000
    chunk = 8  # scenarios per worker task

    def runs(self, tier):
        return self.quick_runs if tier == "quick" else self.thorough_runs

    def setup_process(self):
        """Called once per worker process (and in the parent) before any run."""

    def generate(self, draws, index, tier):
        raise NotImplementedError

    def execute(self, scenario):
        raise NotImplementedError

    def shrink(self, scenario):
        return ()

    def same_class(self, a, b):
        """a, b: Violation. Same violation class for the minimiser."""
        return a.key() == b.key()

    def extra_evidence(self, agg):
        return {}
