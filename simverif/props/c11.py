"""C11 - a saved or aged conversation state continues exactly like the live one.

Fault enumeration over cut points: at every cut of a sampled history the state is crash-restarted
(serialised to JSON, every process-local object dropped, restored from the JSON only) and/or aged
(virtual clock jumps past the clean-up age); the continuation must produce the same outgoing
events as the live twin, up to fresh identifiers."""
import copy
import hashlib
import re

from ..gen import colang2 as G
from ..kernel import control
from ..kernel.trace import Trace
from ..worlds import interp as I
from ..worlds import interp_run as IR
from .base import Outcome
from .interp_base import InterpProp, gen_interp_scenario, program_brief

UID_RE = re.compile(r"(\([a-z0-9_ ]+\))?[0-9a-f]{8}-[0-9a-f]{4}-[0-9a-f]{4}-[0-9a-f]{4}-[0-9a-f]{12}")
AGES = [5.1, 60.0, 3600.0]


class UidNorm:
    """First-occurrence numbering of fresh identifiers."""

    def __init__(self):
        self.m = {}

    def norm(self, x):
        if isinstance(x, str):
            return UID_RE.sub(lambda mo: self.m.setdefault(mo.group(0), "<uid%d>" % len(self.m)), x)
        if isinstance(x, dict):
            return {k: self.norm(v) for k, v in sorted(x.items()) if k not in ("event_created_at", "action_started_at", "action_finished_at", "action_updated_at")}
        if isinstance(x, (list, tuple)):
            return [self.norm(v) for v in x]
        if isinstance(x, (set, frozenset)):
            return sorted(repr(self.norm(v)) for v in x)
        if isinstance(x, (int, float, bool)) or x is None:
            return x
        return self.norm(repr(x))


def restore(state):
    from nemoguardrails.colang.v2_x.runtime.serialization import json_to_state, state_to_json

    return json_to_state(state_to_json(state))


class C11(InterpProp):
    id = "C11"
    level = "fault_enumeration"
    technique = "deterministic simulation with crash-restart and clock-jump faults: the conversation state is serialised/restored from JSON and/or aged past the clean-up age at every cut point of seeded histories; twin-run differential of the outgoing events (uids renamed by first occurrence)"
    rule = ("one scenario = a generated program whose variables hold regexes, sets, nested containers, None/bool/float and references to events and actions, driven by <= 12 user events plus the "
            "action events of the simulated UMIM client; executed live once (twin A; serialisation is also attempted after every step) and then once per (cut point, fault) with fault in "
            "{restore, age 5.1 s / 60 s / 1 h, age+restore}. evaluations = executions; non-trivial = faulted executions whose cut state held >= 1 finished flow instance or a non-string variable; "
            "distinct = distinct (cut state signature, fault kind)")
    expected_probes = ["api_turn_boundaries_restored", "api_restored_into_fresh_instance", "api_aged_between_turns", "cut_restored", "cut_aged", "cleanup_removed_flows_in_live_run", "cleanup_removed_flows_in_twin_b", "state_held_regex", "state_held_set", "state_held_reference", "cut_with_action_in_flight"]
    exhaustive_parts = ["every cut point of every sampled history (restore fault); ageing faults at every cut in the thorough tier, at a seeded third of the cuts in quick"]
    quick_runs = 240
    thorough_runs = 12000
    chunk = 6
    run_timeout_s = 240.0
    ddmin_paths = [("deliveries",), ("program", "flows"), ("program", "flows", "*", "body"), ("cuts",), ("convs", "*", "turns"), ("in_rails",), ("out_rails",)]

    def generate(self, d, index, tier):
        import os

        fam = os.environ.get("C11_FAMILY")  # development aid: force one family
        if fam == "api" or (fam is None and d.chance(0.2, "family-api")):
            return gen_api_scenario(d, tier)
        shape = d.weighted([("general", 5), ("same-event-race", 2), ("kinship", 2)], "shape")
        if shape == "kinship":
            # relatives competing for identical (shared) actions: what the clean-up may discard depends on who still uses what
            prog, deliveries = G.gen_kinship_competition(d, shared_bias=True)
            deliveries = deliveries + G.gen_deliveries(d, d.randint(1, 4, "kextra"))
            # "late": the Finished event of an action arrives 30 s after its start - long after the flows that ended in between are old
            sc = {"program": prog, "deliveries": deliveries, "client": {"seed": d.randint(0, 1 << 30, "cseed"), "faults": ["late"] if d.chance(0.7, "klate") else [], "fault_bias": 8},
                  "tie_seed": d.randint(0, 1 << 30, "tseed"), "gap_seed": d.randint(0, 1 << 30, "gseed"), "flavour": "kinship_competition"}
        else:
            sc = gen_interp_scenario(d, with_faults=d.chance(0.3, "wf"), max_deliveries=12, rich_values=True, few_events=(shape == "same-event-race"))
        sc["cuts"] = "enumerate"
        sc["age_every"] = 3 if tier == "quick" else 1
        sc["cut_seed"] = d.randint(0, 1 << 30, "cutseed")
        return sc

    def _run(self, sc, cut=None, fault=None, tr=None, collect=None, out=None):
        """Run; at step index `cut` (after processing it) apply `fault`. Returns (normalised per-step outputs, result)."""
        norm = UidNorm()
        steps_out = []
        info = {"k": 0, "flows_before": None}

        def hook(res, rec):
            info["k"] += 1
            steps_out.append((norm.norm(IR._norm_event(rec.event)), [norm.norm(IR._norm_event(o)) for o in rec.out]))
            if collect is not None:
                collect(res, rec, info["k"])
            if cut is not None and info["k"] == cut and fault is not None:
                if fault.startswith("age"):
                    delta = float(fault.split(":")[1].split("+")[0])
                    res.client.idle(delta)
                    if out is not None:
                        out.fault("clock_jump")
                if fault.endswith("restore"):
                    res.interp.state = restore(res.interp.state)
                    if out is not None:
                        out.fault("crash_restart")

        res = IR.run_program(sc, hooks=[hook], tr=tr)
        return steps_out, res

    def execute(self, sc):
        from nemoguardrails.colang.v2_x.runtime.serialization import json_to_state, state_to_json

        if sc.get("family") == "api":
            return execute_api(sc)
        out = Outcome()
        tr = Trace(sc.get("run_seed"))
        ser_fail = {}
        cut_info = {}

        def collect(res, rec, k):
            st = res.interp.state
            # serialising and restoring must succeed for every reachable state
            try:
                js = state_to_json(st)
                try:
                    json_to_state(js)
                except control.SimControl:
                    raise
                except Exception as e:
                    ser_fail.setdefault(("restore-raised", type(e).__name__, str(e)[:80]), k)
            except control.SimControl:
                raise
            except Exception as e:
                ser_fail.setdefault(("serialise-raised", type(e).__name__, _unhandled(str(e))), k)
            import re as _re

            vals = [v for f in st.flow_states.values() for v in f.context.values()] + list(st.context.values())
            types = set(type(v).__name__ for v in vals)
            done = sum(1 for f in st.flow_states.values() if f.status.name in ("FINISHED", "STOPPED"))
            inflight = any(getattr(a, "status", None) is not None and a.status.name in ("STARTING", "STARTED") for a in st.actions.values())
            cut_info[k] = {"sig": I.state_signature(st), "types": types, "done": done, "inflight": inflight}

        live, resA = self._run(sc, tr=tr, collect=collect)
        out.evaluations = 1
        out.steps = resA.total_internal
        out.sim_seconds = resA.sim_seconds
        if resA.error:
            kind, e = resA.error
            out.inconclusive = {"load": "program did not load", "budget": "step budget exceeded (C10's subject)"}.get(kind, "live run raised %s (C09/C10's subject)" % type(e).__name__)
            out.digest = tr.digest()
            return out
        for (what, tname, detail), k in sorted(ser_fail.items()):
            out.violate(what, "%s:%s" % (tname, detail), "after step %d of the live run: %s %s: %s" % (k, what, tname, detail), pin={"cuts": [[k, "restore"]]})
        n = len(live)
        # reference twin: the same schedule under a clock that never advances for the interpreter - nothing is ever discarded.
        # The live run above discards whatever its own gaps (late action events, long pauses between user events) make old enough;
        # the property says that this never changes later behaviour.
        frozen = dict(sc)
        frozen["frozen_clock"] = True
        try:
            ref, resR = self._run(frozen)
        except control.SimControl:
            raise
        except Exception as e:
            ref, resR = None, None
        out.evaluations += 1
        if ref is not None and not resR.error:
            if len(resA.interp.state.flow_states) < len(resR.interp.state.flow_states):
                out.probe("cleanup_removed_flows_in_live_run")
            for i in range(max(len(live), len(ref))):
                a = ref[i] if i < len(ref) else None
                b = live[i] if i < len(live) else None
                if a != b:
                    out.violate("behaviour-differs", "age:natural-gaps:%s" % _diff_kind(a, b),
                                "the run whose own pauses let the clean-up discard old flow instances differs from the same run under a frozen clock (nothing discarded): at step %d the reference emitted %s for event %s, the live run emitted %s"
                                % (i + 1, a[1] if a else None, a[0] if a else None, b[1] if b else None), pin={"cuts": []})
                    break
        if sc["cuts"] == "enumerate":
            from ..kernel.draws import Draws

            d = Draws(sc["cut_seed"])
            cuts = []
            for k in range(1, n):
                cuts.append([k, "restore"])
                if k % sc.get("age_every", 1) == d.index(sc.get("age_every", 1), "agephase"):
                    a = d.choice(AGES, "age", k)
                    cuts.append([k, "age:%s" % a])
                    cuts.append([k, "age:%s+restore" % a])
        else:
            cuts = [list(c) for c in sc["cuts"]]
        for k, fault in cuts:
            if k >= n or k < 1:
                continue
            if fault.endswith("restore") and any(kk <= k for kk in ser_fail.values()):
                continue  # already reported as serialise/restore failure
            try:
                got, resB = self._run(sc, cut=k, fault=fault, out=out)
            except control.SimControl:
                raise
            except Exception as e:
                out.violate("fault-raised", "%s:%s" % (fault.split(":")[0], type(e).__name__), "%s at cut %d raised %s: %s" % (fault, k, type(e).__name__, str(e)[:160]), pin={"cuts": [[k, fault]]})
                continue
            out.evaluations += 1
            tr.log("cut", k, fault, resB.error[0] if resB.error else None, len(got), hashlib.blake2b(repr(got).encode(), digest_size=8).hexdigest())
            ci = cut_info.get(k, {})
            if fault.endswith("restore"):
                out.probe("cut_restored")
            if fault.startswith("age"):
                out.probe("cut_aged")
                if len(resB.interp.state.flow_states) < len(resA.interp.state.flow_states):
                    out.probe("cleanup_removed_flows_in_twin_b")
            if "Pattern" in ci.get("types", ()):
                out.probe("state_held_regex")
            if "set" in ci.get("types", ()):
                out.probe("state_held_set")
            if ci.get("types", set()) & {"ActionEvent", "Event", "InternalEvent", "Action", "FlowState"}:
                out.probe("state_held_reference")
            if ci.get("inflight"):
                out.probe("cut_with_action_in_flight")
            if ci.get("done") or (ci.get("types", set()) - {"str", "int", "NoneType"}):
                out.nontrivial_sigs.append((ci.get("sig"), fault.split(":")[0] + ("+restore" if fault.endswith("+restore") else "")))
            kindsig = "restore" if fault == "restore" else ("age+restore" if fault.endswith("+restore") else "age")
            if resB.error:
                kind, e = resB.error
                out.violate("continuation-raised", "%s:%s:%s" % (kindsig, kind, type(e).__name__), "after %s at cut %d the continuation failed (%s): %s; the live twin completed %d steps" % (fault, k, kind, str(e)[:160], n),
                            pin={"cuts": [[k, fault]]})
                continue
            # compare the continuation (steps after the cut) with the live twin
            diff = None
            for i in range(k, max(len(live), len(got))):
                a = live[i] if i < len(live) else None
                b = got[i] if i < len(got) else None
                if a != b:
                    diff = (i, a, b)
                    break
            if diff:
                i, a, b = diff
                out.violate("behaviour-differs", "%s:%s" % (kindsig, _diff_kind(a, b)),
                            "after %s at cut %d: at step %d the live state emitted %s for event %s, the %s state emitted %s" % (fault, k, i + 1, a[1] if a else None, a[0] if a else None, kindsig, b[1] if b else (None if b is None else b)),
                            pin={"cuts": [[k, fault]]})
        out.digest = tr.digest()
        out.interleaving = tuple(s[0].get("type") if isinstance(s[0], dict) else s[0] for s in live)
        out.sample = {"program": program_brief(sc), "deliveries": sc["deliveries"][:6], "live_steps": n, "cuts_executed": len(cuts), "example_cut": cuts[0] if cuts else None}
        return out

    def same_class(self, a, b):
        return a.oracle == b.oracle and a.sig.split(":")[0] == b.sig.split(":")[0]


# ------------------------------------------------------------------------------------------------
# API family: the same property through LLMRails.generate_async(state=...), which serialises the
# state after every turn.  Twin A hands the *live* State object back to generate_async (never
# serialised, never aged), twin B the JSON the API returned (crash-restart at every turn boundary),
# twins C_k rest longer than the clean-up age before turn k.
# ------------------------------------------------------------------------------------------------
V2_LLM_TURNS = ["hi", "hello there", "value please", "paraphrase please", "what is the capital of France", "hello again"]


def gen_api_scenario(d, tier):
    from ..gen import convo

    if d.chance(0.3, "api-llm"):
        n = d.randint(2, 5, "n")
        texts = [d.choice(V2_LLM_TURNS, "t", i) for i in range(n)]
        sc = {"colang": "2.x", "mode": "v2_llm", "in_rails": [], "out_rails": [], "exceptions": False, "verdicts": {}, "intents": {},
              "convs": [{"turns": [{"tok": "#c0t%d#" % i, "text": t} for i, t in enumerate(texts)]}], "lat_seed": d.randint(0, 1 << 30, "lat_seed"), "lat_mode": d.weighted([("zero", 1), ("short", 2)], "lm")}
    else:
        sc = convo.gen_spec(d, colang="2.x", max_turns=5)
        while len(sc["convs"][0]["turns"]) < 2:
            t = len(sc["convs"][0]["turns"])
            tk = convo.tok(0, t)
            sc["convs"][0]["turns"].append({"tok": tk, "text": "topic %d more %s" % (t % 3, tk)})
            sc["intents"][tk] = "free"
        sc["tracker"] = True
    sc["family"] = "api"
    sc["cuts"] = "enumerate"
    sc["cut_seed"] = d.randint(0, 1 << 30, "cutseed")
    sc["age_every"] = 2 if tier == "quick" else 1
    return sc


def _api_turns(records):
    """Observable behaviour of each turn: outcome, reply and the seam history (peers called, with what)."""
    norm = UidNorm()
    res = []
    for r in records:
        seam = [(e["kind"], e["name"], e.get("verdict"), e.get("text")) for e in r.events if e["kind"] in ("rail", "dialog", "llm", "shipped", "gen")]
        res.append((r.status, r.reply_role, norm.norm(r.reply), type(r.exc).__name__ if r.exc else None, norm.norm(seam)))
    return res


def execute_api(sc):
    from ..worlds import rails_run as RR

    out = Outcome()
    tr = Trace(sc.get("run_seed"))
    wA, recsA = RR.run_conversations(sc, tr=tr, state_mode="live")
    out.evaluations = 1
    out.sim_seconds = getattr(wA, "sim_seconds", 0.0)
    if any(r.status != "ok" for r in recsA):
        out.inconclusive = "live twin raised (C03/C17's subject)"
        out.digest = tr.digest()
        return out
    live = _api_turns(recsA)
    n = len(live)
    if sc["cuts"] == "enumerate":
        from ..kernel.draws import Draws

        d = Draws(sc["cut_seed"])
        cuts = [[0, "restore"]]
        for k in range(1, n):
            if k % sc.get("age_every", 1) == d.index(sc.get("age_every", 1), "agephase"):
                cuts.append([k, "age:%s+restore" % d.choice(AGES, "age", k)])
        # a crash-restart loses the serving instance too: every second cut serves the turns after the first with a NEW LLMRails
        # instance built from the same configuration (only the returned JSON state survives)
        cuts = [c + [i % 2 == 1] for i, c in enumerate(cuts)]
    else:
        cuts = [list(c) for c in sc["cuts"]]
    for cut in cuts:
        k, fault = cut[0], cut[1]
        fresh = bool(cut[2]) if len(cut) > 2 else False
        idle = None
        if fault.startswith("age"):
            delta = float(fault.split(":")[1].split("+")[0])
            idle = (lambda kk, dd: (lambda c, t: dd if t == kk else 0.0))(k, delta)
            out.fault("clock_jump")
        out.fault("crash_restart", n - 1)
        if fresh:
            out.probe("api_restored_into_fresh_instance")
        wB, recsB = RR.run_conversations(sc, state_mode="json", idle_fn=idle, fresh_instance=fresh)
        out.evaluations += 1
        got = _api_turns(recsB)
        tr.log("api-cut", k, fault, [g[0] for g in got])
        kindsig = "restore" if fault == "restore" else "age+restore"
        out.probe("api_turn_boundaries_restored", n - 1)
        if fault.startswith("age"):
            out.probe("api_aged_between_turns")
        out.nontrivial_sigs.append(("api", sc["mode"], bool(sc.get("tracker")), n, kindsig))
        for i in range(n):
            a, b = live[i], got[i] if i < len(got) else None
            if a == b:
                continue
            if b is not None and b[0] != "ok":
                out.violate("continuation-raised", "%s:api:%s" % (kindsig, b[3]), "generate_async(state=<returned JSON state>)%s raised %s in turn %d (%r); with the live state object the turn was served: %r"
                            % (" after resting %s" % fault if idle else "", b[3], i, recsB[i].exc, a[2]), pin={"cuts": [[k, fault, fresh]]})
            else:
                what = "reply" if b is None or a[2] != b[2] or a[1] != b[1] else "peer-calls"
                out.violate("behaviour-differs", "%s:api-%s" % (kindsig, what), "turn %d through generate_async with the returned JSON state%s: %s\n   live state object: %s" % (i, " after resting %s" % fault if idle else "", _short_turn(b), _short_turn(a)),
                            pin={"cuts": [[k, fault, fresh]]})
            break
    out.digest = tr.digest()
    out.interleaving = ("api", sc["mode"], n)
    out.sample = {"family": "api (LLMRails.generate_async with state)", "mode": sc["mode"], "tracker": bool(sc.get("tracker")), "turns": [t["text"] for t in sc["convs"][0]["turns"]], "cuts_executed": cuts, "live_replies": [x[2] for x in live]}
    return out


def _short_turn(t):
    if t is None:
        return "no such turn"
    return "status=%s role=%s reply=%r peers=%s" % (t[0], t[1], t[2], [(x[0], x[1], x[2]) for x in t[4]])


def _unhandled(msg):
    m = re.search(r"<class '([^']+)'>", msg)
    return m.group(1) if m else msg[:40]


def _diff_kind(a, b):
    if a is None or b is None:
        return "length"
    if a[0] != b[0]:
        return "different-event-delivered"
    ta = [e.get("type") for e in a[1]]
    tb = [e.get("type") for e in b[1]]
    if ta != tb:
        return "missing-events" if len(tb) < len(ta) else "extra-or-other-events"
    return "event-arguments"


PROP = C11()
