"""C10 - event processing terminates and a faulty flow fails alone.

(1) bounded liveness: every external event is processed within B = 300 + 30 x (expanded elements)
    internal events (counting deque seam), for programs whose loops/recursion contain waits -
    including activated flows that fail or finish immediately;
(2) fault enumeration: an erroneous statement planted at every statement position of the victim
    flows; differential against the fault-free twin with identical decisions: witness flows in
    other interaction loops must emit exactly what they emit in the twin."""
import copy

from ..gen import colang2 as G
from ..kernel import control
from ..kernel.trace import Trace
from ..worlds import interp as I
from ..worlds import interp_run as IR
from .base import Outcome
from .interp_base import InterpProp, gen_interp_scenario, program_brief

BAD_STATEMENTS = [
    ("undefined-function", {"k": "assign", "var": "$bad", "expr": "nofunc_zz(1)"}),
    ("type-error", {"k": "assign", "var": "$bad", "expr": '1 + "a"'}),
    ("unknown-variable", {"k": "assign", "var": "$bad", "expr": "$undefined_zz + 1"}),
    ("missing-key", {"k": "assign", "var": "$bad", "expr": '{"a": 1}["b"]'}),
    ("bad-condition", {"k": "if", "cond": '1 < "a"', "then": [{"k": "send", "ev": "Xbad", "args": {}}], "else": None}),
    ("bad-send-argument", {"k": "raw", "text": 'send Xbad(n=1 + "a")'}),
    ("bad-match-regex", {"k": "raw", "text": 'match E5(x=regex("("))'}),
    ("bad-match-variable", {"k": "raw", "text": "match E5(x=$undefined_zz)"}),
    ("bad-match-reference", {"k": "raw", "text": "match $undefined_ref.Finished()"}),
    ("bad-match-reference-none", {"k": "raw", "text": "$noref_zz = None\n@IND@match $noref_zz.Finished()"}),
    ("bad-match-reference-not-an-object", {"k": "raw", "text": "$noref_zz = 5\n@IND@match $noref_zz.Finished()"}),
    # an event name that a FLOW reference does not have (checked by an assert in the runtime, not by a Colang error class)
    ("bad-match-flow-ref-event", {"k": "raw", "text": "start zchild as $fref_zz\n@IND@match $fref_zz.Done()"}),
    ("bad-send-flow-ref-event", {"k": "raw", "text": "start zchild as $fref_zz\n@IND@send $fref_zz.Done()"}),
    ("bad-return-expression", {"k": "return", "expr": "1 / 0"}),
    ("bad-return-reference", {"k": "return", "expr": "$undefined_zz.value"}),
    ("division-by-zero", {"k": "assign", "var": "$bad", "expr": "1 / 0"}),
    # errors that only fire when an event of that name arrives (match time), in shapes where the faulty flow - or a flow it
    # started - has ANOTHER head waiting for the same event: the candidate list of that event then holds several heads of
    # flows that the failure takes down together
    ("bad-match-compare", {"k": "raw", "text": 'match E5(x=less_than("a"))'}),
    ("bad-match-regex-in-or-group", {"k": "raw", "text": 'match E5(x=regex("(")) or E5(y=2) or E4(x=7)'}),
    ("bad-match-regex-second-in-or-group", {"k": "raw", "text": 'match E4(x=7) or E5(x=regex("("))'}),
    ("bad-match-with-child-on-same-event", [{"k": "start_flow", "flow": "zchild"}, {"k": "raw", "text": 'match E5(x=regex("("))'}]),
    ("bad-match-and-group", {"k": "raw", "text": 'match E5(x=regex("(")) and E5()'}),
]
MATCH_TIME = ["bad-match-regex", "bad-match-compare", "bad-match-regex-in-or-group", "bad-match-regex-second-in-or-group", "bad-match-with-child-on-same-event", "bad-match-and-group"]
# match statements whose error fires when the head ARRIVES on them (the event reference cannot be resolved), not when an event comes
ARRIVAL_TIME = ("bad-match-reference", "bad-match-reference-none", "bad-match-reference-not-an-object", "bad-match-flow-ref-event")
BAD_BY_NAME = dict(BAD_STATEMENTS)

WITNESS = [
    {"name": "w1", "decorators": ['@loop("wit1")'], "body": [{"k": "match", "ev": "E3", "args": {}}, {"k": "send", "ev": "W1", "args": {}}]},
    {"name": "w2", "decorators": ['@loop("wit2")'], "body": [{"k": "match", "ev": "E5", "args": {}}, {"k": "send", "ev": "W2", "args": {}}, {"k": "match", "ev": "E4", "args": {}}, {"k": "send", "ev": "W3", "args": {}}]},
    {"name": "zchild", "body": [{"k": "match", "ev": "E5", "args": {}}, {"k": "send", "ev": "Zc", "args": {}}, {"k": "match", "ev": "Never", "args": {}}]},
    {"name": "errwatch", "decorators": ['@loop("errwatch")'], "body": [{"k": "raw", "text": "match ColangError() as $e"}, {"k": "send", "ev": "ErrSeen", "args": {}}]},
]


def victim_positions(prog):
    """All (path) positions where a statement can be inserted into victim flows (names f*)."""
    out = []

    def walk(body, path):
        for i in range(len(body) + 1):
            out.append(path + (i,))
        for i, s in enumerate(body):
            if s["k"] == "when":
                for ci, c in enumerate(s["cases"]):
                    walk(c["body"], path + (i, "cases", ci, "body"))
                if s.get("else"):
                    walk(s["else"], path + (i, "else"))
            elif s["k"] == "if":
                walk(s["then"], path + (i, "then"))
                if s.get("else"):
                    walk(s["else"], path + (i, "else"))
            elif s["k"] == "while":
                walk(s["body"], path + (i, "body"))

    for fi, fl in enumerate(prog["flows"]):
        if fl["name"].startswith("f"):
            walk(fl["body"], ("flows", fi, "body"))
    return out


def inject(prog, pos, stmt):
    p = copy.deepcopy(prog)
    cur = p
    for k in pos[:-1]:
        cur = cur[k]
    for k, st in enumerate(stmt if isinstance(stmt, list) else [stmt]):
        cur.insert(pos[-1] + k, copy.deepcopy(st))
    return p


def api_deliver(itp, event):
    """Mirror of RuntimeV2_x.process_events' inner loop around run_to_completion: an escaping
    exception becomes a ColangError input event.  Returns (outgoing, escaped exception types)."""
    from nemoguardrails.colang.v2_x.runtime.flows import Event

    escaped = []
    new_event = event
    out = []
    guard = 0
    while new_event is not None and guard < 5:
        guard += 1
        try:
            out = itp.deliver(new_event) if new_event != "START" else itp.start()
            new_event = None
        except control.SimControl:
            raise
        except Exception as e:
            escaped.append(type(e).__name__)
            new_event = Event(name="ColangError", arguments={"type": str(type(e).__name__), "error": str(e)})
            out = []
    return out, escaped


class C10(InterpProp):
    id = "C10"
    level = "fault_enumeration"
    technique = "deterministic simulation with fault injection: (1) step budget per event via a counting internal-event queue (bounded liveness), (2) an erroneous statement planted at every statement position of victim flows, differential against the fault-free twin run with identical decisions"
    rule = ("two batches. termination: random programs (40% with activated flows that end instantly by finishing, aborting or failing) - every processed external event must stay within the budget; an exceedance "
            "is confirmed with 4x the budget. faulty-flow: a random victim program plus fixed witness flows in other interaction loops (one of them waiting for the same event E5 as the planted match) and an error watcher; "
            "one execution per (statement position, bad statement kind) - all positions, kinds cycled/sampled in quick, all kinds in thorough; every 5th (quick) / 2nd (thorough) faulted program is also driven through the real "
            "RuntimeV2_x.process_events on the virtual-time loop: nothing may escape it and it must emit what the direct driver emits. evaluations = executions; "
            "non-trivial = faulted executions in which the planted statement was reached (run diverged from the twin or a ColangError was seen); distinct = distinct (statement kind at the position, bad kind, reached?)")
    expected_probes = ["real_api_executions", "batch_termination", "batch_faulty_flow", "instant_end_shape", "colang_error_seen", "match_error_contained", "witness_shared_event_delivered"]
    exhaustive_parts = ["every statement position of every sampled victim program", "all 10 erroneous-statement kinds per position in the thorough tier"]
    quick_runs = 400
    thorough_runs = 20000
    chunk = 10
    run_timeout_s = 600.0
    ddmin_paths = [("deliveries",), ("program", "flows", "*", "body"), ("injections",)]

    def generate(self, d, index, tier):
        batch = d.weighted([("termination", 1), ("faulty", 1)], "batch")
        if batch == "termination":
            inst = d.chance(0.4, "instant")
            sc = gen_interp_scenario(d, with_faults=d.chance(0.3, "wf"), instant_end=inst, max_deliveries=8)
            if inst:
                _add_instant_end_flows(sc["program"], d)
            sc["batch"] = "termination"
            sc["instant_end"] = inst
            return sc
        sc = gen_interp_scenario(d, with_faults=False, n_flows=d.randint(2, 4, "nf"), max_deliveries=10, allow_actions=d.chance(0.5, "acts"))
        prog = sc["program"]
        # witnesses and watcher, activated by main before the victims are started
        main = prog["flows"][0]
        for st in main["body"]:
            if st["k"] == "start_flow":
                st["k"] = "activate_flow"
        main["body"] = [{"k": "activate_flow", "flow": "errwatch"}, {"k": "activate_flow", "flow": "w1"}, {"k": "activate_flow", "flow": "w2"}] + main["body"]
        prog["flows"] += copy.deepcopy(WITNESS)
        # deliveries over E1..E5, E5 shared between a witness and the planted bad match
        dels = []
        for k in range(d.randint(4, 10, "nd2")):
            ev = d.choice(["E1", "E2", "E3", "E4", "E5", "E5"], "dev", k)
            e = {"type": ev}
            if d.chance(0.5, "dx", k):
                e["x"] = d.choice([1, 2], "dxv", k)
            dels.append(e)
        sc["deliveries"] = dels
        sc["batch"] = "faulty"
        sc["injections"] = "enumerate"
        sc["kinds_per_position"] = 2 if tier == "quick" else len(BAD_STATEMENTS)
        sc["kind_seed"] = d.randint(0, 1 << 30, "kseed")
        sc["gaps"] = False
        sc["real_api_every"] = 5 if tier == "quick" else 2
        return sc

    # --- termination -----------------------------------------------------------------------
    def _termination(self, sc, out, tr):
        out.probe("batch_termination")
        if sc.get("instant_end"):
            out.probe("instant_end_shape")
        res = IR.run_program(sc, tr=tr)
        out.evaluations = max(1, len(res.steps))
        out.steps = res.total_internal
        out.sim_seconds = res.sim_seconds
        for k, v in res.action_faults.items():
            if k != "normal":
                out.fault("action_" + k, v)
        if res.error:
            kind, e = res.error
            if kind == "load":
                out.inconclusive = "program did not load: %s" % type(e).__name__
            elif kind == "budget":
                ring = getattr(res, "ring", [])
                cls = classify_ring(ring)
                # confirm with 10x the budget: terminating there means the budget was too tight
                big = dict(sc)
                big["budget_factor"] = 4
                res2 = IR.run_program(big, on_build=lambda itp: setattr(itp, "budget", itp.budget * 4))
                if res2.error and res2.error[0] == "budget":
                    out.violate("nonterminating", cls, "processing external event #%d exceeded %d internal events (and 4x that); last internal events: %s"
                                % (len(res.steps) + 1, res.interp.budget, _ring_brief(ring)))
                else:
                    out.probe("budget_too_tight_warning")
            else:
                out.violate("exception-escaped", "%s:%s" % (type(e).__name__, _frame(e)), "run_to_completion raised %s: %s" % (type(e).__name__, str(e)[:200]))
        if res.steps:
            out.nontrivial_sigs.append(("term", max(r.steps for r in res.steps) // 10))
        out.interleaving = ("term", tuple(r.steps for r in res.steps))
        out.sample = {"batch": "termination", "program": program_brief(sc), "deliveries": sc["deliveries"][:6], "max_internal_events_per_external": max([r.steps for r in res.steps] or [0]),
                      "budget": res.interp.budget if res.interp else None}

    # --- faulty flow -----------------------------------------------------------------------
    def _run_api(self, sc, prog, tr=None):
        """Run with process_events-like error conversion; returns per-step (witness markers, errseen, escaped, all outgoing types)."""
        s2 = dict(sc)
        s2["program"] = prog
        steps = []
        from ..kernel import seams
        from ..kernel.draws import Draws

        td = Draws(sc.get("tie_seed", 0))
        tie_no = {"n": 0}

        def chooser(site, k):
            tie_no["n"] += 1
            return td.index(k, "tie", tie_no["n"])

        ctx = seams.SimContext(chooser=chooser)
        I.install_interp_seams(ctx)
        seams.reset_run_state(ctx)
        try:
            try:
                itp = I.Interp(G.render(prog))
            except control.SimControl:
                raise
            except Exception as e:
                return None, ("load", e)
            now = {"t": 0.0}
            ctx.set_clock(lambda: now["t"])
            events = ["START"] + [dict(e) for e in sc["deliveries"]]
            pending_actions = []
            for i, ev in enumerate(events):
                now["t"] += 0.01
                try:
                    out_events, escaped = api_deliver(itp, ev)
                except control.StepBudgetExceeded as e:
                    return steps, ("budget", e)
                rec = {"event": ev if isinstance(ev, str) else ev.get("type"), "wit": [o["type"] for o in out_events if o["type"] in ("W1", "W2", "W3")],
                       "err": sum(1 for o in out_events if o["type"] == "ErrSeen"), "escaped": escaped, "all": [o["type"] for o in out_events]}
                mfs = itp.state.main_flow_state
                rec["main"] = (mfs.uid, mfs.status.name) if mfs is not None else None
                steps.append(rec)
                # actions finish instantly in this batch (the UMIM side is not the subject here)
                fins = []
                for o in out_events:
                    m = IR.START_RE.match(o.get("type", ""))
                    if m and o.get("action_uid"):
                        fins.append({"type": m.group(1) + "Finished", "action_uid": o["action_uid"], "is_success": True, "final_script": o.get("script")})
                for f in fins:
                    now["t"] += 0.001
                    try:
                        o2, esc2 = api_deliver(itp, f)
                    except control.StepBudgetExceeded as e:
                        return steps, ("budget", e)
                    rec["wit"] += [o["type"] for o in o2 if o["type"] in ("W1", "W2", "W3")]
                    rec["err"] += sum(1 for o in o2 if o["type"] == "ErrSeen")
                    rec["escaped"] += esc2
                    rec["all"] += [o["type"] for o in o2]
                mfs = itp.state.main_flow_state
                rec["main"] = (mfs.uid, mfs.status.name) if mfs is not None else None
                if tr is not None:
                    tr.log("api-step", i, rec["event"], rec["all"], rec["escaped"])
            return steps, None
        finally:
            I.uninstall_interp_seams()

    def _run_real_api(self, sc, prog):
        """The same driving protocol through the real event-processing API: RuntimeV2_x.process_events on the virtual-time
        loop (state object handed back call by call).  Returns (steps, error) like _run_api; `raised` holds what escaped."""
        import asyncio

        from ..kernel import seams
        from ..kernel.draws import Draws
        from ..kernel.loop import run_sim

        td = Draws(sc.get("tie_seed", 0))
        tie_no = {"n": 0}

        def chooser(site, k):
            tie_no["n"] += 1
            return td.index(k, "tie", tie_no["n"])

        holder = {}

        def clock():
            lp = holder.get("loop")
            return lp.time() if lp is not None else 0.0

        ctx = seams.SimContext(chooser=chooser, clock=clock)
        I.install_interp_seams(ctx)
        seams.reset_run_state(ctx)
        try:
            from nemoguardrails import RailsConfig
            from nemoguardrails.colang.v2_x.runtime.runtime import RuntimeV2_x

            try:
                cfg = RailsConfig.from_content(colang_content=G.render(prog), yaml_content="colang_version: 2.x\nmodels: []\n")
                rt = RuntimeV2_x(config=cfg)
            except control.SimControl:
                raise
            except Exception as e:
                return None, ("load", e)
            I.COUNTER.budget = 6000  # per process_events call; the direct driver's per-program budget decides non-termination
            steps = []

            async def call(state, events):
                I.COUNTER.steps = 0
                try:
                    out_events, state2 = await rt.process_events(events, state=state, blocking=True)
                    return out_events, state2, None
                except control.SimControl:
                    raise
                except Exception as e:
                    return [], state, e

            async def main(loop):
                holder["loop"] = loop
                state = None
                for i, ev in enumerate(["START"] + [dict(e) for e in sc["deliveries"]]):
                    out_events, state, exc = await call(state, [] if ev == "START" else [ev])
                    rec = {"event": ev if isinstance(ev, str) else ev.get("type"), "all": [o["type"] for o in out_events], "raised": [type(exc).__name__] if exc else []}
                    fins = []
                    for o in out_events:
                        m = IR.START_RE.match(o.get("type", ""))
                        if m and o.get("action_uid"):
                            fins.append({"type": m.group(1) + "Finished", "action_uid": o["action_uid"], "is_success": True, "final_script": o.get("script")})
                    for f in fins:
                        o2, state, exc2 = await call(state, [f])
                        rec["all"] += [o["type"] for o in o2]
                        if exc2:
                            rec["raised"].append(type(exc2).__name__)
                    rec["wit"] = [t for t in rec["all"] if t in ("W1", "W2", "W3")]
                    rec["err"] = sum(1 for t in rec["all"] if t == "ErrSeen")
                    steps.append(rec)
                return steps

            try:
                res, _loop = run_sim(main, start_time=1000.0, max_iterations=400000)
            except control.StepBudgetExceeded as e:
                return steps, ("budget", e)
            return steps, None
        finally:
            I.COUNTER.budget = None
            I.uninstall_interp_seams()

    def _faulty(self, sc, out, tr):
        out.probe("batch_faulty_flow")
        self._n_inj = 0
        prog = sc["program"]
        twin, err = self._run_api(sc, prog, tr)
        out.evaluations = 1
        if err is not None:
            out.inconclusive = "fault-free twin failed: %s" % err[0]
            return
        if not twin or any(s.get("main") is None or s["main"][1] != "STARTED" or s["main"][0] != twin[0]["main"][0] for s in twin):
            out.inconclusive = "main flow of the fault-free twin did not stay alive"
            return
        if any(s["event"] == "E5" and "W2" in s["wit"] for s in twin):
            out.probe("witness_shared_event_delivered")
        positions = victim_positions(prog)
        if sc["injections"] == "enumerate":
            from ..kernel.draws import Draws

            d = Draws(sc["kind_seed"])
            names = [n for n, _ in BAD_STATEMENTS]
            todo = []
            for pi, pos in enumerate(positions):
                k = sc.get("kinds_per_position", 2)
                pick = names if k >= len(names) else d.sample(names, k, "kinds", pi)
                if pi % 3 == 0:
                    mt = MATCH_TIME[(pi // 3 + d.index(len(MATCH_TIME), "mtphase")) % len(MATCH_TIME)]
                    if mt not in pick:
                        pick = pick + [mt]
                if pi % 4 == 1:
                    at = ARRIVAL_TIME[(pi // 4) % len(ARRIVAL_TIME)]
                    if at not in pick:
                        pick = pick + [at]
                for n in pick:
                    todo.append([list(pos), n])
        else:
            todo = [list(x) for x in sc["injections"]]
        for pos, name in todo:
            pos = tuple(pos)
            try:
                fprog = inject(prog, pos, BAD_BY_NAME[name])
            except (IndexError, KeyError, TypeError):
                continue  # position vanished while minimising
            steps, err = self._run_api(sc, fprog, None)
            out.evaluations += 1
            out.fault("bad_statement")
            tr.log("inject", list(pos), name, err[0] if err else None, [(s["wit"], s["err"], s["escaped"]) for s in (steps or [])])
            pin = {"injections": [[list(pos), name]]}
            where = "flow %s, position %s" % (prog["flows"][pos[1]]["name"], list(pos[3:]))
            if err is not None:
                if err[0] == "load":
                    out.probe("injected_program_did_not_load")
                    continue
                out.violate("nonterminating-with-fault", "%s:%s:%s" % (classify_ring(list(I.COUNTER.ring)), _position_class(prog, pos), name),
                            "bad statement %s planted in %s: step budget exceeded; last internal events: %s" % (name, where, _ring_brief(list(I.COUNTER.ring))), pin=pin)
                continue
            # the same faulted program through the real event-processing API (RuntimeV2_x.process_events on the virtual-time
            # loop) for a share of the injections: nothing may escape it, and it must behave like the mirror used above
            n_inj = getattr(self, "_n_inj", 0)
            self._n_inj = n_inj + 1
            if n_inj % sc.get("real_api_every", 4) == 0:
                rsteps, rerr = self._run_real_api(sc, fprog)
                out.evaluations += 1
                out.probe("real_api_executions")
                if rerr is None:
                    for i, r in enumerate(rsteps):
                        if r["raised"]:
                            out.violate("exception-escaped-api", "%s:%s" % (name, r["raised"][0]), "bad statement %s planted in %s: RuntimeV2_x.process_events raised %s while processing event %d (%s)" % (name, where, r["raised"], i, r["event"]), pin=pin)
                            break
                    else:
                        if [r["all"] for r in rsteps] != [x["all"] for x in steps]:
                            k = next((i for i, (r, x) in enumerate(zip(rsteps, steps)) if r["all"] != x["all"]), None)
                            out.violate("api-differs-from-direct-driver", name, "bad statement %s planted in %s: RuntimeV2_x.process_events emitted %r at step %s, the direct driver (run_to_completion + the documented error conversion) %r"
                                        % (name, where, rsteps[k]["all"] if k is not None else None, k, steps[k]["all"] if k is not None else None), pin=pin)
            # the failure may legitimately propagate to an ancestor/awaiter of the faulty flow; if it reaches
            # main (ancestor of everything) the witnesses are no longer 'unrelated' - no verdict then
            # (uids are drawn from one seeded sequence that the parser also uses, so main's uid legitimately differs between the
            # twin and the faulted program: main "stayed alive" = same instance and STARTED throughout the faulted run itself.
            # Comparing with the twin's uid - as first written - skipped the verdict for 43 % of all injections.)
            if not steps or any(b.get("main") is None or b["main"][1] != "STARTED" or b["main"][0] != steps[0]["main"][0] for b in steps):
                out.probe("failure_propagated_to_main")
                continue
            reached = False
            first_div = None
            for i, (a, b) in enumerate(zip(twin, steps)):
                if a["all"] != b["all"] or b["escaped"] or b["err"] != a["err"]:
                    first_div = i
                    reached = True
                    break
            if any(s["escaped"] for s in steps):
                out.probe("error_while_matching")
            if any(s["err"] for s in steps):
                out.probe("colang_error_seen")
                if name.startswith("bad-match"):
                    out.probe("match_error_contained")
            out.nontrivial_sigs.append((name, reached, _stmt_kind_at(prog, pos)))
            # (d) unrelated flows: witnesses emit exactly what they emit in the twin, same and later events
            for i, (a, b) in enumerate(zip(twin, steps)):
                if a["wit"] != b["wit"]:
                    cause = "error-escaped-matching" if any(s["escaped"] for s in steps[: i + 1]) else "no-escape"
                    out.violate("unrelated-flow-disturbed", "%s:%s" % (name, cause),
                                "bad statement %s planted in %s: at step %d (event %s) the witness flows emitted %r, in the fault-free twin %r%s"
                                % (name, where, i, b["event"], b["wit"], a["wit"], ("; exception(s) %r escaped run_to_completion" % [s["escaped"] for s in steps[: i + 1] if s["escaped"]]) if cause != "no-escape" else ""), pin=pin)
                    break
            else:
                # (b) reported as ColangError: if the run diverged from the twin because of the planted statement, a ColangError must have been seen
                if reached and (not name.startswith("bad-match") or name in ARRIVAL_TIME) and not any(s["err"] for s in steps) and not any(s["escaped"] for s in steps):
                    out.violate("error-not-reported", name, "bad statement %s planted in %s: the run diverged from the twin at step %d but no ColangError event was observed by the watcher flow" % (name, where, first_div), pin=pin)
        out.interleaving = ("faulty", len(positions))
        out.sample = {"batch": "faulty-flow", "program": program_brief(sc), "deliveries": sc["deliveries"], "positions": len(positions), "executions": out.evaluations,
                      "twin_witness_trace": [s["wit"] for s in twin]}

    def execute(self, sc):
        out = Outcome()
        tr = Trace(sc.get("run_seed"))
        if sc.get("batch") == "termination":
            self._termination(sc, out, tr)
        else:
            self._faulty(sc, out, tr)
        out.digest = tr.digest()
        return out

    def same_class(self, a, b):
        if a.oracle != b.oracle:
            return False
        if a.oracle.startswith("nonterminating"):
            return a.sig.split(":")[0] == b.sig.split(":")[0]
        return a.sig.split(":")[-1] == b.sig.split(":")[-1] if a.oracle == "unrelated-flow-disturbed" else True


def _position_class(prog, pos):
    """'head-of-activated-flow': the planted statement runs before the first waiting statement of a flow
    that is activated somewhere (the instance then fails within the event that started it)."""
    fl = prog["flows"][pos[1]]
    activated = any(s.get("k") == "activate_flow" and s.get("flow") == fl["name"] for f in prog["flows"] for s in _all_stmts(f["body"]))
    if len(pos) == 4 and activated:
        first_wait = next((i for i, s in enumerate(fl["body"]) if s["k"] in ("match", "match_ref", "await_flow", "await_action", "when", "group", "while")), len(fl["body"]))
        if pos[3] <= first_wait:
            return "head-of-activated-flow"
    return "elsewhere"


def _all_stmts(body):
    for s in body:
        yield s
        if s["k"] == "when":
            for c in s["cases"]:
                yield from _all_stmts(c["body"])
            yield from _all_stmts(s.get("else") or [])
        elif s["k"] == "if":
            yield from _all_stmts(s["then"])
            yield from _all_stmts(s.get("else") or [])
        elif s["k"] == "while":
            yield from _all_stmts(s["body"])


def _stmt_kind_at(prog, pos):
    cur = prog
    try:
        for k in pos[:-1]:
            cur = cur[k]
        return cur[pos[-1]]["k"] if pos[-1] < len(cur) else "end"
    except Exception:
        return "?"


def _frame(e):
    import traceback

    tb = traceback.extract_tb(e.__traceback__)
    for fr in reversed(tb):
        if "/nemoguardrails/" in fr.filename:
            return "%s:%d" % (fr.filename.split("/nemoguardrails/")[-1], fr.lineno)
    return "?"


def classify_ring(ring):
    """Classify a budget exceedance from the last processed internal events.
    'activated-instant-end' = nothing but start/started/finished/failed/unhandled events of a few activated flows
    (the restarting flow itself, the flows it activates in every cycle, and an activated error watcher; a bound of
    three missed `f0: activate f2; start f2; await f1 (f1: activate f3); <failing statement>` in the thorough tier).  Sub-class 'internal-wait': every restarting flow reaches STARTED in each cycle (it passes a
    match statement on an internal event that is already queued - the known F7b shape); 'before-first-match':
    a restarting flow never gets started (it ends before its first match statement - must not loop)."""
    names = [r[0] for r in ring]
    starts = [r for r in ring if r[0] == "StartFlow" and r[2]]
    allowed = ("StartFlow", "FlowStarted", "FlowFinished", "FlowFailed", "FinishFlow", "StopFlow", "ColangError", "UnhandledEvent", "BotIntentLog", "UserIntentLog", "BotActionLog", "UserActionLog")
    restarting = set(s[1] for s in starts)
    if len(starts) >= 5 and len(restarting) <= 8 and all(n in allowed for n in names[-80:]):
        kinds = set(n for n in names if n in ("FlowFinished", "FlowFailed"))
        kind = "finish" if kinds == {"FlowFinished"} else ("fail" if kinds == {"FlowFailed"} else "mixed")
        started = set(r[1] for r in ring if r[0] == "FlowStarted")
        sub = "internal-wait" if restarting <= started else "before-first-match"
        return "activated-instant-end:%s:%s" % (sub, kind)
    return "other"


def _ring_brief(ring):
    return [r[0] + (":" + r[1] if r[1] else "") for r in list(ring)[-12:]]


def _add_instant_end_flows(prog, d):
    """Shapes that F7 is about: activated flows whose instances end within the processing of the event that
    started them.  Activation either by `activate` in main or as a module-level `@active` flow (nobody waits for it)."""
    shape = d.weighted([("finish-await-instant", 2), ("abort-first", 2), ("error-first", 2), ("when-instant", 1), ("plain-finish", 2),
                        ("action-then-abort", 2), ("action-then-error", 2), ("assign-then-abort", 1)], "ieshape")
    style = d.weighted([("main-activate", 1), ("module-active", 1)], "iestyle")
    flows = prog["flows"]
    act = {"k": "start_action", "action": "UtteranceBotAction", "args": {"script": "trying"}}
    if shape == "plain-finish":
        flows.append({"name": "inst", "body": [{"k": "send", "ev": "Minst", "args": {}}]})
    elif shape == "finish-await-instant":
        flows.append({"name": "inst0", "body": [{"k": "send", "ev": "Minst0", "args": {}}]})
        flows.append({"name": "inst", "body": [{"k": "activate_flow", "flow": "inst0"}, {"k": "await_flow", "flow": "inst0"}]})
    elif shape == "abort-first":
        flows.append({"name": "inst", "body": [{"k": "abort"}]})
    elif shape == "error-first":
        flows.append({"name": "inst", "body": [{"k": "assign", "var": "$bad", "expr": '1 + "a"'}, {"k": "match", "ev": "E1", "args": {}}]})
    elif shape == "action-then-abort":
        flows.append({"name": "inst", "body": [act, {"k": "abort"}]})
    elif shape == "action-then-error":
        flows.append({"name": "inst", "body": [act, {"k": "assign", "var": "$bad", "expr": '1 + "a"'}, {"k": "match", "ev": "E1", "args": {}}]})
    elif shape == "assign-then-abort":
        flows.append({"name": "inst", "body": [{"k": "assign", "var": "$v", "expr": "1"}, {"k": "send", "ev": "Mtry", "args": {}}, {"k": "abort"}]})
    else:
        flows.append({"name": "inst0", "body": [{"k": "send", "ev": "Minst0", "args": {}}]})
        flows.append({"name": "inst", "body": [{"k": "when", "cases": [{"cond": "inst0", "body": [{"k": "send", "ev": "Mw", "args": {}}]}], "else": None}]})
    if style == "module-active":
        flows[-1]["decorators"] = ["@active"]
    else:
        flows[0]["body"].insert(0, {"k": "activate_flow", "flow": "inst"})
    prog["instant_shape"] = shape + ":" + style


PROP = C10()
