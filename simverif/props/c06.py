"""C06 - flow and action lifetimes are bounded by the parent flow.

Invariants evaluated after every fully processed external event (I1 orphan flows, I3 orphan
actions, I4 an activated flow owed by a running activator is alive) plus the action life-cycle automaton over the whole event history (I2), with action
Finished events delivered late / early / never / twice by the simulated UMIM client."""
from ..gen import colang2 as G
from ..kernel.trace import Trace
from ..worlds import interp as I
from ..worlds import interp_run as IR
from .base import Outcome
from .interp_base import InterpProp, gen_interp_scenario, program_brief


class C06(InterpProp):
    id = "C06"
    level = "exploration"
    technique = "deterministic simulation of the Colang 2 interpreter under a simulated UMIM client (Started/Finished delayed, dropped, duplicated, reordered; virtual clock; decided tie-breaks): lifetime invariants after every event + Start/Stop life-cycle automaton over the event history"
    rule = ("one run = one generated flow hierarchy (start/await/activate/when/groups, depth <= 4, <= 7 flow definitions, UMIM actions with references) driven by seeded user events and action events; "
            "(statements include break/continue, flows held in references that are stopped or awaited through them); 4 % of the runs use the shipped core/timing/avatars library flows instead; fault kinds per action: never finished, finished twice, finished before started, finished 30 s late, no Started, Finished after Stop. evaluations = processed external events; "
            "non-trivial = steps at which a flow instance finished or failed while it still had running children or unfinished actions; distinct = distinct normalised interpreter states at such steps")
    expected_probes = ["parent_ended_with_live_children", "parent_ended_with_unfinished_action", "stop_sent", "finished_after_stop_delivered", "started_delivered_after_stop", "activated_flow_restarted", "tie_break_decided"]
    quick_runs = 4000
    thorough_runs = 200000

    def generate(self, d, index, tier):
        if d.chance(0.04, "library"):
            # the shipped library flows (core, timing, avatars: posture / interruption management, notifications) as hierarchies
            from . import c09

            variant = d.randint(0, len(c09.LIB_VARIANTS) - 1, "libvariant")
            dels = [c09.library_delivery(d, i, max(variant, 1) if variant else 0) if variant else
                    {"type": "UtteranceUserActionFinished", "final_transcript": d.choice(c09.USER_TEXTS, "ut", i), "action_uid": "user-%d" % i, "is_success": True} for i in range(d.randint(3, 9, "n"))]
            return {"program_text": c09.library_program(variant), "lib_variant": variant, "deliveries": dels, "flavour": "library",
                    "client": {"seed": d.randint(0, 1 << 30, "cs"), "faults": [f for f in ("late", "dup", "never", "started_late") if d.chance(0.3, "lf", f)]},
                    "tie_seed": d.randint(0, 1 << 30, "ts"), "gap_seed": d.randint(0, 1 << 30, "gs")}
        if d.chance(0.3, "scope_race"):
            # actions started inside when / or-group scopes, with Started events that cross the Stop on the wire
            sc = gen_interp_scenario(d, with_faults=False, allow_vars=False, action_scope_bias=True)
            sc["client"]["faults"] = [f for f in ("started_late", "never", "late") if d.chance(0.7, "srf", f)] or ["started_late"]
            sc["client"]["fault_bias"] = 4
            sc["flavour"] = "scope_race"
            return sc
        if d.chance(0.3, "kinship"):
            prog, deliveries = G.gen_kinship_competition(d)
            # "never": actions are started but never finish and a Stop gets no reaction - whether and how often the interpreter
            # stops a (shared) action is then the only thing that ends it
            fmode = d.weighted([("none", 4), ("never", 3), ("mix", 3)], "kfmode")
            faults = [] if fmode == "none" else (["never"] if fmode == "never" else ([f for f in ("never", "late", "started_late", "dup", "early", "no_started") if d.chance(0.3, "kf", f)] or ["late"]))
            return {"program": prog, "deliveries": deliveries, "client": {"seed": d.randint(0, 1 << 30, "cseed"), "faults": faults}, "tie_seed": d.randint(0, 1 << 30, "tseed"),
                    "gap_seed": d.randint(0, 1 << 30, "gseed"), "flavour": "kinship_competition"}
        few = d.chance(0.45, "few_events")
        sc = gen_interp_scenario(d, with_faults=not few or d.chance(0.5, "few_faults"), allow_vars=d.chance(0.5, "vars"), finishing_main=True, few_events=few)
        if few:
            sc["flavour"] = "same_event_race"
        return sc

    def execute(self, sc):
        out = Outcome()
        tr = Trace(sc.get("run_seed"))
        auto = IR.ActionAutomaton()
        prev = {"flows": {}, "n_auto": 0}
        out.evaluations = 0

        def hook(res, rec):
            import nemoguardrails.colang.v2_x.runtime.statemachine as sm

            st = res.interp.state
            out.evaluations += 1
            auto.feed(rec)
            # new automaton violations (I2)
            for (kind, aname, detail) in auto.violations[prev["n_auto"]:]:
                out.violate("action-lifecycle", "%s:%s" % (kind, _delivery_kind(rec)), "while processing %s at t=%.3f: %s" % (IR._norm_event(rec.event), rec.t, detail))
            prev["n_auto"] = len(auto.violations)
            for (kind, who, detail) in IR.check_lifetimes(st, auto):
                sig = kind
                if kind == "orphan-flow":
                    sig = "%s:%s" % (kind, _orphan_class(st, who))
                out.violate("lifetime", sig, "after processing %s at t=%.3f: %s" % (IR._norm_event(rec.event), rec.t, detail))
            # I4 (restart half): calibrated in observe-only mode first (0 of 202 400 runs on the unchanged tree; fires with a
            # mutant that skips the restart after an abort)
            if sc.get("program"):
                for (kind, who, detail) in IR.check_activation_liveness(st, sc["program"]):
                    out.violate("lifetime", kind, "after processing %s at t=%.3f: %s" % (IR._norm_event(rec.event), rec.t, detail))
            # reach probes / non-triviality
            cur = {u: f.status.name for u, f in st.flow_states.items()}
            ended = [u for u, s in cur.items() if s in ("FINISHED", "STOPPED") and prev["flows"].get(u) not in ("FINISHED", "STOPPED")]
            if ended:
                sig = I.state_signature(st)
                for u in ended:
                    f = st.flow_states[u]
                    if f.child_flow_uids:
                        out.probe("parent_ended_with_live_children")
                        out.nontrivial_sigs.append(sig)
                    if any(a in auto.state and not auto.state[a]["finished"] for a in f.action_uids):
                        out.probe("parent_ended_with_unfinished_action")
                        out.nontrivial_sigs.append(sig)
                    if f.activated > 0 or f.new_instance_started:
                        out.probe("activated_flow_restarted")
            prev["flows"] = cur
            if any(e.get("type", "").startswith("Stop") and e.get("type", "").endswith("Action") for e in rec.out):
                out.probe("stop_sent")
            if rec.tag and rec.tag[0] == "finished-after-stop":
                out.probe("finished_after_stop_delivered")
            if rec.tag and rec.tag[0].startswith("started") and auto.state.get(rec.tag[1], {}).get("stops"):
                out.probe("started_delivered_after_stop")
            out.state_sigs.append(I.state_signature(st))

        res = IR.run_program(sc, hooks=[hook], tr=tr)
        out.steps = res.total_internal
        out.sim_seconds = res.sim_seconds
        if res.choices:
            out.probe("tie_break_decided", len(res.choices))
        for k, v in res.action_faults.items():
            if k != "normal":
                out.fault("action_" + k, v)
        if res.error:
            kind, e = res.error
            out.inconclusive = {"load": "program did not load", "budget": "step budget exceeded (C10's subject)"}.get(kind, "run_to_completion raised %s (C09/C10's subject)" % type(e).__name__)
        out.digest = tr.digest()
        out.interleaving = tuple((IR._norm_event(r.event).get("type") if isinstance(r.event, dict) else r.event, r.tag[0] if r.tag else None) for r in res.steps)
        out.sample = {"program": program_brief(sc), "deliveries": sc["deliveries"][:6], "client_faults": sc["client"]["faults"], "steps": len(res.steps),
                      "action_events": {u[:8]: v for u, v in list(auto.state.items())[:6]}}
        return out

    def same_class(self, a, b):
        return a.oracle == b.oracle and a.sig.split(":")[0] == b.sig.split(":")[0]


def _delivery_kind(rec):
    return rec.tag[0] if rec.tag else "?"


def _orphan_class(state, who):
    """Distinguish the shapes of orphaned flows: is the survivor an activated flow (restart race) or a plain child?"""
    child_id = who.split("<-")[-1]
    insts = [f for f in state.flow_states.values() if f.flow_id == child_id]
    if any(f.activated > 0 for f in insts):
        return "activated-survivor"
    return "plain-child"


PROP = C06()
