"""C14 - Colang 1.0 dialog flows are followed like structured programs; decisions depend on the
event history alone.

Honest fit (DESIGN C14): the first sentence has no schedule or fault in it; it rides on the same
closed-loop runs that decide the second sentence, which is about hidden state carried across
operations on one shared instance: the same histories are re-asked on a used instance,
interleaved with other conversations, as concurrent tasks, and after dynamic flows were registered."""
import asyncio
import copy
import logging

from ..kernel import control, seams
from ..kernel.draws import SHORT_GRID, Draws
from ..kernel.loop import run_sim
from ..kernel.trace import Trace
from .base import Outcome, Prop


# ------------------------------------------------------------------------------------------------
# program generator (AST) + renderer + reference interpreter
# ------------------------------------------------------------------------------------------------

class PGen:
    def __init__(self, d):
        self.d = d
        self.n_user = 0
        self.n_bot = 0
        self.n_act = 0
        self.subflows = []
        self.uses_ext = False

    def user(self):
        self.n_user += 1
        return {"k": "user", "intent": "i%d" % (self.n_user - 1)}

    def bot(self):
        self.n_bot += 1
        return {"k": "bot", "intent": "b%d" % (self.n_bot - 1)}

    def block(self, depth, key, allow_user=True):
        d = self.d
        out = []
        n = d.randint(1, 3, key, "n")
        # control structures meet at their edges (a loop that ends a then-branch, an if that ends a loop body, a
        # subflow call that ends an else-branch): compiled jump offsets of neighbouring constructs interact exactly
        # there, so a share of the blocks is forced to end (or begin) with a compound statement
        edge = d.weighted([("none", 5), ("last", 3), ("first", 1)], key, "edge") if depth >= 1 else "none"
        for s in range(n):
            kinds = [("bot", 4), ("set", 2)]
            if allow_user:
                kinds.append(("user", 3))
            if depth < 3:
                w = 2 if depth < 2 else 1
                kinds += [("if", w), ("while", (1.5 if depth < 2 else 0.5) if allow_user else 0), ("do", 1 if depth <= 1 and len(self.subflows) < 3 else 0), ("exec", 2 if depth < 2 else 1)]
            if depth < 3 and ((edge == "last" and s == n - 1) or (edge == "first" and s == 0)):
                kinds = [x for x in kinds if x[0] in ("if", "while", "do")]
            k = d.weighted([x for x in kinds if x[1] > 0], key, s, "kind")
            if k == "bot":
                out.append(self.bot())
            elif k == "user":
                out.append(self.user())
                out.append(self.bot())
            elif k == "set":
                out.append({"k": "set", "var": "x%d" % d.randint(0, 1, key, s, "v"), "val": d.randint(0, 3, key, s, "val")})
            elif k == "if":
                v = "x%d" % d.randint(0, 1, key, s, "v")
                if d.chance(0.35, key, s, "ext"):
                    # a context variable the application supplies with the history (a ContextUpdate event in front of the first
                    # user intent), never assigned by the flow: two histories with the same intents can take different branches
                    v = "ext"
                    self.uses_ext = True
                else:
                    out.append({"k": "set", "var": v, "val": d.randint(0, 2, key, s, "sv")})
                st = {"k": "if", "var": v, "op": d.choice(["==", "<", ">"], key, s, "op"), "c": d.randint(0, 2, key, s, "c"),
                      "then": self.block(depth + 1, (key, s, "t"), allow_user), "else": self.block(depth + 1, (key, s, "e"), allow_user) if d.chance(0.6, key, s, "he") else None}
                if v != "ext" and d.chance(0.3, key, s, "elif"):
                    # an `else if` chain on the same variable (spelt `else if`, meaning an if statement in the else branch)
                    st["else"] = [{"k": "if", "var": v, "op": d.choice(["==", "<", ">"], key, s, "op2"), "c": d.randint(0, 2, key, s, "c2"),
                                   "then": self.block(depth + 1, (key, s, "t2"), allow_user), "else": st["else"]}]
                    st["else_if"] = True
                out.append(st)
            elif k == "while":
                v = "n%d" % depth
                out.append({"k": "set", "var": v, "val": 0})
                shape = d.weighted([("own-user-step", 3), ("waits-in-subflow", 2 if len(self.subflows) < 3 else 0)], key, s, "wshape")
                if shape == "waits-in-subflow":
                    # the loop's only waiting statement sits in a called subflow: between two calls from the same call site
                    # there are only statements that slide (the counter increment, the loop condition, maybe a set / if)
                    name = "sub%d" % len(self.subflows)
                    self.subflows.append(None)
                    sub_body = ([self.bot()] if d.chance(0.5, key, s, "wsb") else []) + [self.user()] + ([self.bot()] if d.chance(0.5, key, s, "wsa") else [])
                    self.subflows[int(name[3:])] = {"name": name, "body": sub_body}
                    wbody = [{"k": "do", "name": name}] + ([{"k": "set", "var": "x0", "val": d.randint(0, 3, key, s, "wv")}] if d.chance(0.4, key, s, "ws") else [])
                else:
                    wbody = [self.user(), self.bot()] + ([{"k": "set", "var": "x0", "val": d.randint(0, 3, key, s, "wv")}] if d.chance(0.3, key, s, "ws") else []) \
                        + (self.block(depth + 1, (key, s, "wb"), d.chance(0.5, key, s, "wbu")) if depth < 2 and d.chance(0.4, key, s, "wblk") else [])
                limit = d.randint(1, 3, key, s, "lim")
                jump = d.weighted([("none", 5), ("break", 2), ("continue", 2)], key, s, "wjump")
                if jump != "none":
                    # leave the loop / the iteration early when the counter has a certain value; `continue` skips the rest of the body -
                    # the counter is moved on first, so the loop still ends
                    at = d.randint(0, limit, key, s, "wjat")
                    guard = {"k": "if", "var": v, "op": "==", "c": at, "then": ([{"k": "inc", "var": v}] if jump == "continue" else []) + [{"k": jump}], "else": None}
                    wbody.insert(d.randint(1, len(wbody), key, s, "wjpos"), guard)
                    if d.chance(0.5, key, s, "wjtail"):
                        wbody.append(self.bot())
                out.append({"k": "while", "var": v, "limit": limit, "body": wbody})
            elif k == "do":
                name = "sub%d" % len(self.subflows)
                self.subflows.append(None)
                body = self.block(depth + 1, (key, s, "sub"), allow_user)
                self.subflows[int(name[3:])] = {"name": name, "body": body}
                out.append({"k": "do", "name": name})
            elif k == "exec":
                self.n_act += 1
                v = "x%d" % d.randint(0, 1, key, s, "v")
                out.append({"k": "set", "var": v, "val": d.randint(0, 2, key, s, "pv")})
                out.append({"k": "exec", "action": "act%d" % (self.n_act - 1), "param": v, "result": "r%d" % d.randint(0, 1, key, s, "rv")})
                if d.chance(0.6, key, s, "useres"):
                    rv = out[-1]["result"]
                    out.append({"k": "if", "var": rv, "op": "==", "c": d.randint(0, 2, key, s, "rc"), "then": [self.bot()], "else": [self.bot()] if d.chance(0.5, key, s, "re") else None})
        return out

    def program(self):
        first = self.user()
        body = [first, self.bot()] + self.block(0, "main")
        return {"body": body, "subflows": [s for s in self.subflows if s], "uses_ext": self.uses_ext}


def action_result(name, p):
    """Deterministic action semantics shared by the stub action and the reference interpreter."""
    return (int(name[3:]) + (p if isinstance(p, int) else 0)) % 3


def render(prog):
    lines = []
    intents = sorted(set(_collect(prog, "user")), key=lambda s: int(s[1:]))
    for it in intents + ["other"]:
        lines += ["define user %s" % it, '  "say %s"' % it, ""]

    def stmts(body, ind):
        p = "  " * ind
        out = []
        for s in body:
            k = s["k"]
            if k == "user":
                out.append(p + "user %s" % s["intent"])
            elif k == "bot":
                out.append(p + "bot %s" % s["intent"])
            elif k == "set":
                out.append(p + "$%s = %d" % (s["var"], s["val"]))
            elif k == "if":
                out.append(p + "if $%s %s %d" % (s["var"], s["op"], s["c"]))
                out += stmts(s["then"], ind + 1)
                while s.get("else_if") and s.get("else") and len(s["else"]) == 1 and s["else"][0]["k"] == "if":
                    s = s["else"][0]
                    out.append(p + "else if $%s %s %d" % (s["var"], s["op"], s["c"]))
                    out += stmts(s["then"], ind + 1)
                if s.get("else"):
                    out.append(p + "else")
                    out += stmts(s["else"], ind + 1)
            elif k == "while":
                out.append(p + "while $%s < %d" % (s["var"], s["limit"]))
                out += stmts(s["body"], ind + 1)
                out.append(p + "  $%s = $%s + 1" % (s["var"], s["var"]))
            elif k == "do":
                out.append(p + "do %s" % s["name"])
            elif k in ("break", "continue"):
                out.append(p + k)
            elif k == "inc":
                out.append(p + "$%s = $%s + 1" % (s["var"], s["var"]))
            elif k == "exec":
                out.append(p + "$%s = execute %s(p=$%s)" % (s["result"], s["action"], s["param"]))
        return out

    lines.append("define flow prog")
    lines += stmts(prog["body"], 1)
    lines.append("")
    for sub in prog["subflows"]:
        lines.append("define subflow %s" % sub["name"])
        lines += stmts(sub["body"], 1)
        lines.append("")
    return "\n".join(lines)


def _collect(prog, kind):
    out = []

    def walk(body):
        for s in body:
            if s["k"] == kind:
                out.append(s["intent"])
            for key in ("then", "else", "body"):
                if s.get(key):
                    walk(s[key])
    walk(prog["body"])
    for sub in prog["subflows"]:
        walk(sub["body"])
    return out


class Leave(Exception):
    pass


class _Break(Exception):
    pass


class _Continue(Exception):
    pass


def reference_run(prog, intents, init_vars=None):
    """Reference semantics: returns per user intent (decisions, vars at Listen)."""
    subs = {s["name"]: s["body"] for s in prog["subflows"]}
    results = []
    state = {"vars": dict(init_vars or {}), "gen": None}

    def run(body):
        for s in body:
            k = s["k"]
            if k == "user":
                got = yield ("wait", s["intent"])
                if got != s["intent"]:
                    raise Leave()
            elif k == "bot":
                yield ("bot", s["intent"])
            elif k == "set":
                state["vars"][s["var"]] = s["val"]
            elif k == "if":
                v = state["vars"].get(s["var"])
                ok = v is not None and {"==": v == s["c"], "<": v < s["c"], ">": v > s["c"]}[s["op"]]
                if ok:
                    yield from run(s["then"])
                elif s.get("else"):
                    yield from run(s["else"])
            elif k == "while":
                while state["vars"].get(s["var"], 0) < s["limit"]:
                    try:
                        yield from run(s["body"])
                    except _Continue:
                        continue  # back to the condition; the rest of the body (the counter increment at its end too) is skipped
                    except _Break:
                        break
                    state["vars"][s["var"]] = state["vars"].get(s["var"], 0) + 1
            elif k == "break":
                raise _Break()
            elif k == "continue":
                raise _Continue()
            elif k == "inc":
                state["vars"][s["var"]] = state["vars"].get(s["var"], 0) + 1
            elif k == "do":
                yield from run(subs[s["name"]])
            elif k == "exec":
                p = state["vars"].get(s["param"])
                yield ("exec", s["action"], p)
                state["vars"][s["result"]] = action_result(s["action"], p)

    first_intent = prog["body"][0]["intent"]
    for it in intents:
        decisions = []
        gen = state["gen"]
        if gen is None:
            if it == first_intent:
                gen = run(prog["body"])
                ev = next(gen)  # ("wait", i0)
                state["gen"] = gen
            else:
                results.append((decisions, dict(state["vars"])))
                continue
        try:
            ev = gen.send(it)
            while ev[0] != "wait":
                decisions.append(ev)
                ev = next(gen)
        except StopIteration:
            state["gen"] = None
        except Leave:
            state["gen"] = None
            # an unexpected intent leaves the flow; if it is the flow's first intent a new instance starts
            if it == first_intent:
                gen = run(prog["body"])
                next(gen)
                state["gen"] = gen
                try:
                    ev = gen.send(it)
                    while ev[0] != "wait":
                        decisions.append(ev)
                        ev = next(gen)
                except StopIteration:
                    state["gen"] = None
        results.append((decisions, dict(state["vars"])))
    return results


def follow_intents(prog, d, n_max=12, init_vars=None, key="leave"):
    """A user that follows the flow, leaving it at a seeded point with an unexpected intent."""
    subs = {s["name"]: s["body"] for s in prog["subflows"]}
    # walk the reference to know which intent is expected next
    intents = []
    leave_at = d.randint(0, n_max, key) if d.chance(0.5, key, "s") else None
    ref_state = {"gen": None}
    first = prog["body"][0]["intent"]
    expected = first
    for k in range(n_max):
        if leave_at is not None and k == leave_at:
            # leaving with an intent of the flow itself (e.g. its first intent again) is heuristic territory in Colang 1.0
            it = "other"
        else:
            it = expected
        intents.append(it)
        if it != expected:
            break  # what happens after the user left the flow is not pinned by the property: stop here
        # recompute the expectation by running the reference on the whole history (cheap)
        expected = _next_expected(prog, intents, init_vars) or first
    return intents


def _next_expected(prog, intents, init_vars=None):
    subs = {s["name"]: s["body"] for s in prog["subflows"]}
    vars_ = dict(init_vars or {})

    def run(body):
        for s in body:
            k = s["k"]
            if k == "user":
                got = yield s["intent"]
                if got != s["intent"]:
                    raise Leave()
            elif k == "set":
                vars_[s["var"]] = s["val"]
            elif k == "if":
                v = vars_.get(s["var"])
                ok = v is not None and {"==": v == s["c"], "<": v < s["c"], ">": v > s["c"]}[s["op"]]
                if ok:
                    yield from run(s["then"])
                elif s.get("else"):
                    yield from run(s["else"])
            elif k == "while":
                while vars_.get(s["var"], 0) < s["limit"]:
                    try:
                        yield from run(s["body"])
                    except _Continue:
                        continue
                    except _Break:
                        break
                    vars_[s["var"]] = vars_.get(s["var"], 0) + 1
            elif k == "break":
                raise _Break()
            elif k == "continue":
                raise _Continue()
            elif k == "inc":
                vars_[s["var"]] = vars_.get(s["var"], 0) + 1
            elif k == "do":
                yield from run(subs[s["name"]])
            elif k == "exec":
                vars_[s["result"]] = action_result(s["action"], vars_.get(s["param"]))

    gen = None
    first = prog["body"][0]["intent"]
    exp = first
    for it in intents:
        if gen is None:
            if it != first:
                exp = first
                continue
            gen = run(prog["body"])
            next(gen)
        try:
            exp = gen.send(it)
        except StopIteration:
            gen = None
            exp = first
        except Leave:
            gen = None
            exp = first
            if it == first:
                gen = run(prog["body"])
                next(gen)
                try:
                    exp = gen.send(it)
                except StopIteration:
                    gen = None
                    exp = first
    return exp


# ------------------------------------------------------------------------------------------------

class C14(Prop):
    id = "C14"
    level = "exploration"
    world = "RAILS (Colang 1.0 runtime)"
    technique = "deterministic simulation: closed-loop runs of the Colang 1.0 runtime on a virtual-time loop against a reference structured-program interpreter; the same histories re-asked on a used, shared instance - sequentially interleaved, as concurrent asyncio tasks with action latencies, and after dynamic flows were registered"
    rule = ("one run = one generated structured program (user/bot steps, set, if/else, while with a user step inside, do subflow, execute with result used in an if; distinct intents) compiled by the real parser, and one "
            "simulated user who follows the flow and may leave it at a seeded point; after the closed loop every history prefix is re-asked on the used instance in seeded order, interleaved with a second conversation, "
            "concurrently (one task per prefix, action latencies from a grid) and after a dynamic start_flow registered extra flows, and compared with a fresh instance. evaluations = generate_events calls; "
            "non-trivial = programs containing while or do or an if on an action result; distinct = distinct (program shape, history)")
    components = {
        "real": ["colang v1_0 parser (colang_parser.py, coyml_parser.py)", "colang v1_0 runtime: RuntimeV1_0.generate_events, flows.py compute_next_steps/compute_next_state, sliding.py, eval.py", "actions/action_dispatcher.py"],
        "stub": ["the user (simulated client feeding UserIntent events)", "custom actions act0..actN (deterministic function, scheduler-chosen latency)", "event loop clock (SimLoop)", "uuid / wall clock seams"],
    }
    assumptions = ["the generated subset avoids constructs whose Colang 1.0 semantics is a heuristic (competing flows, wildcards, priorities)", "compared are decisions (bot intents, action starts with evaluated parameter, Listen) and program variables at each Listen, not the grouping of ContextUpdate events"]
    expected_probes = ["sibling_conversation", "direct_decision_function_calls", "program_with_while", "program_with_break_or_continue", "program_with_else_if", "program_with_subflow", "program_with_action_result_branch", "user_left_flow", "reasked_concurrently", "reasked_after_dynamic_flow"]
    ddmin_paths = [("intents",), ("program", "body"), ("program", "subflows", "*", "body")]
    quick_runs = 240
    thorough_runs = 20000
    chunk = 8
    run_timeout_s = 120.0

    def setup_process(self):
        logging.disable(logging.CRITICAL)

    def generate(self, d, index, tier):
        prog = PGen(d).program()
        sc = {"program": prog, "lat_seed": d.randint(0, 1 << 30, "lat"), "order_seed": d.randint(0, 1 << 30, "ord")}
        ext = d.choice([0, 1, 2], "ext") if prog.get("uses_ext") else None
        sc["ext"] = ext
        sc["intents"] = follow_intents(prog, d, n_max=d.randint(3, 10, "nint"), init_vars={"ext": ext} if ext is not None else None)
        # a sibling conversation: other value of the supplied variable, its own way through the flow
        ext2 = d.choice([x for x in (0, 1, 2) if x != ext], "ext2") if prog.get("uses_ext") else None
        sc["sibling"] = {"ext": ext2, "intents": follow_intents(prog, d, n_max=d.randint(3, 10, "nint2"), init_vars={"ext": ext2} if ext2 is not None else None, key="leave2")}
        return sc

    def execute(self, sc):
        from nemoguardrails import RailsConfig
        from nemoguardrails.colang.v1_0.runtime.flows import compute_context
        from nemoguardrails.colang.v1_0.runtime.runtime import RuntimeV1_0

        out = Outcome()
        tr = Trace(sc.get("run_seed"))
        prog = sc["program"]
        text = render(prog)
        kinds = set(_kinds(prog))
        if "while" in kinds:
            out.probe("program_with_while")
        if "do" in kinds:
            out.probe("program_with_subflow")
        if kinds & {"break", "continue"}:
            out.probe("program_with_break_or_continue")
        if any(x.get("else_if") for x in _all(prog)):
            out.probe("program_with_else_if")
        holder = {}
        ld = Draws(sc.get("lat_seed", 0))
        calls = []

        def clock():
            lp = holder.get("loop")
            return lp.time() if lp is not None else 0.0

        def make_runtime():
            cfg = RailsConfig.from_content(colang_content=text, yaml_content="models: []\n")
            rt = RuntimeV1_0(cfg)
            for name in sorted(set(s["action"] for s in _all(prog) if s["k"] == "exec")):
                def mk(nm):
                    async def act(p=None):
                        calls.append((nm, p))
                        lat = ld.choice(SHORT_GRID, "act", nm, len(calls) % 5)
                        await asyncio.sleep(lat)
                        return action_result(nm, p)
                    return act
                rt.register_action(mk(name), name)
            return rt

        ctx = seams.SimContext(clock=clock)
        seams.install(ctx)
        seams.reset_run_state(ctx)
        try:
            try:
                used = make_runtime()
            except control.SimControl:
                raise
            except Exception as e:
                out.inconclusive = "program did not load: %s" % type(e).__name__
                out.digest = tr.digest()
                return out
            iv = {"ext": sc["ext"]} if sc.get("ext") is not None else None
            ref = reference_run(prog, sc["intents"], iv)
            # an intent of the flow itself arriving where another one is expected (e.g. the first intent again) is
            # heuristic territory in Colang 1.0 (interruption/restart rules): no verdict on such histories
            flow_intents = set(_collect(prog, "user"))
            for k, it in enumerate(sc["intents"]):
                exp = _next_expected(prog, sc["intents"][:k], iv) if k else prog["body"][0]["intent"]
                if it != exp and (it in flow_intents or k != len(sc["intents"]) - 1):
                    out.inconclusive = "history leaves the flow with one of the flow's own intents or continues after leaving it"
                    out.digest = tr.digest()
                    return out
            histories = []  # event list before each generate_events call
            answers = []

            def decisions_of(new_events, call_log):
                dec = []
                acts = list(call_log)
                for e in new_events:
                    if e["type"] == "BotIntent":
                        dec.append(("bot", e["intent"]))
                    elif e["type"] == "StartInternalSystemAction" and e.get("action_name", "").startswith("act"):
                        nm = e["action_name"]
                        p = next((pp for (n2, pp) in acts if n2 == nm), None)
                        if (nm, p) in acts:
                            acts.remove((nm, p))
                        dec.append(("exec", nm, p))
                return dec

            async def ask(rt, events):
                n0 = len(calls)
                new = await rt.generate_events(list(events))
                return new, calls[n0:]

            async def main(loop):
                holder["loop"] = loop
                events = [{"type": "ContextUpdate", "data": dict(iv)}] if iv else []
                # closed loop on the used instance
                for k, it in enumerate(sc["intents"]):
                    events.append({"type": "UserIntent", "intent": it})
                    histories.append(list(events))
                    new, cl = await ask(used, events)
                    out.evaluations += 1
                    dec = decisions_of(new, cl)
                    cvars = compute_context(events + new)
                    answers.append(dec)
                    exp_dec, exp_vars = ref[k]
                    tr.log("step", k, it, dec, [list(x) for x in exp_dec])
                    if dec != [tuple(x) for x in exp_dec]:
                        out.violate("not-structured-program", _mismatch_kind(dec, exp_dec), "after intents %r the runtime decided %r, the structured program semantics demand %r" % (sc["intents"][: k + 1], dec, exp_dec))
                        return
                    if new[-1]["type"] != "Listen":
                        out.violate("not-structured-program", "no-listen", "after intents %r the new events do not end with Listen" % (sc["intents"][: k + 1],))
                        return
                    for v, val in exp_vars.items():
                        if cvars.get(v) != val:
                            out.violate("not-structured-program", "variable-value", "after intents %r variable $%s is %r, expected %r" % (sc["intents"][: k + 1], v, cvars.get(v), val))
                            return
                    events.extend(new)
                    if k > 0 and sc["intents"][k] != _next_expected(prog, sc["intents"][:k], iv):
                        out.probe("user_left_flow")
                # ---- history-only: re-ask the prefixes -------------------------------------------
                od = Draws(sc.get("order_seed", 0))
                fresh_answers = []
                for h in histories:
                    fr = make_runtime()
                    new, cl = await ask(fr, h)
                    out.evaluations += 1
                    fresh_answers.append(decisions_of(new, cl))
                order = od.shuffle(list(range(len(histories))), "reask")
                cu = [{"type": "ContextUpdate", "data": dict(iv)}] if iv else []  # programs that read $ext always get it supplied
                other = [{"type": "UserIntent", "intent": "other"}, {"type": "UserIntent", "intent": prog["body"][0]["intent"]}]
                for j in order:
                    if od.chance(0.5, "interleave", j):
                        await ask(used, cu + other[: 1 + od.index(2, "olen", j)])
                        out.evaluations += 1
                    new, cl = await ask(used, histories[j])
                    out.evaluations += 1
                    got = decisions_of(new, cl)
                    if got != fresh_answers[j]:
                        out.violate("depends-on-earlier-calls", "sequential-reask", "history %r: the used instance decides %r, a fresh instance decides %r" % (sc["intents"][: j + 1], got, fresh_answers[j]))
                        return
                # ---- a sibling conversation on the used instance: other supplied context, its own way through the flow ----
                sib = sc.get("sibling") or {}
                sib_hist = []
                if sib.get("intents"):
                    siv = {"ext": sib["ext"]} if sib.get("ext") is not None else None
                    ok_sib = True
                    for k, it in enumerate(sib["intents"]):
                        exp = _next_expected(prog, sib["intents"][:k], siv) if k else prog["body"][0]["intent"]
                        if it != exp and (it in flow_intents or k != len(sib["intents"]) - 1):
                            ok_sib = False
                    if ok_sib:
                        out.probe("sibling_conversation")
                        sref = reference_run(prog, sib["intents"], siv)
                        # the fresh instance is asked first and completely: a reference call between two calls on the used instance
                        # would itself disturb whatever the used instance (or the module) remembers from its previous call
                        ev_f = [{"type": "ContextUpdate", "data": dict(siv)}] if siv else []
                        fr = make_runtime()
                        fresh_sib = []
                        for k, it in enumerate(sib["intents"]):
                            ev_f.append({"type": "UserIntent", "intent": it})
                            new_f, cl_f = await ask(fr, ev_f)
                            out.evaluations += 1
                            fresh_sib.append(decisions_of(new_f, cl_f))
                            ev_f.extend(new_f)
                        # used instance: the first conversation's last history once more, then the sibling, turn by turn
                        await ask(used, histories[-1])
                        ev_u = [{"type": "ContextUpdate", "data": dict(siv)}] if siv else []
                        for k, it in enumerate(sib["intents"]):
                            ev_u.append({"type": "UserIntent", "intent": it})
                            sib_hist.append(list(ev_u))
                            new_u, cl_u = await ask(used, ev_u)
                            out.evaluations += 1
                            du, df = decisions_of(new_u, cl_u), fresh_sib[k]
                            tr.log("sibling", k, it, du, df)
                            if du != df:
                                out.violate("depends-on-earlier-calls", "sibling-conversation", "sibling history (supplied $ext=%r, intents %r): the used instance decides %r, a fresh instance decides %r" % (sib.get("ext"), sib["intents"][: k + 1], du, df))
                                return
                            if df != [tuple(x) for x in sref[k][0]]:
                                out.violate("not-structured-program", _mismatch_kind(df, sref[k][0]), "with supplied $ext=%r after intents %r the runtime decided %r, the structured program semantics demand %r" % (sib.get("ext"), sib["intents"][: k + 1], df, sref[k][0]))
                                return
                            ev_u.extend(new_u)
                        # and the first conversation again
                        for j in order[:3]:
                            new, cl = await ask(used, histories[j])
                            out.evaluations += 1
                            got = decisions_of(new, cl)
                            if got != fresh_answers[j]:
                                out.violate("depends-on-earlier-calls", "after-sibling-conversation", "history %r (supplied $ext=%r) asked again after the sibling conversation: the used instance decides %r, a fresh instance decides %r" % (sc["intents"][: j + 1], sc.get("ext"), got, fresh_answers[j]))
                                return
                # ---- the decision function itself on histories without event identifiers (what an application that keeps its own
                # event list may pass): alternating between the two conversations on the used instance's flow configuration ----
                from nemoguardrails.colang.v1_0.runtime.flows import compute_next_steps

                def strip(h):
                    return [{k: v for k, v in e.items() if k not in ("uid", "event_created_at", "source_uid")} for e in h]

                def steps_brief(st):
                    return [(e.get("type"), e.get("intent") or e.get("action_name") or e.get("flow_id")) for e in st]

                pool = [("first", j, strip(h)) for j, h in enumerate(histories)] + [("sibling", j, strip(h)) for j, h in enumerate(sib_hist)]
                pool = od.shuffle(pool, "direct-order")[:12]
                fresh_cfg = make_runtime()
                wants = []
                for (who, j, h) in pool:  # all reference answers first (see above)
                    try:
                        wants.append(steps_brief(compute_next_steps(h, make_runtime().flow_configs, rails_config=fresh_cfg.config, processing_log=[])))
                    except control.SimControl:
                        raise
                    except Exception as e:
                        wants.append(("raised", type(e).__name__))
                for (who, j, h), want in zip(pool, wants):
                    try:
                        got = steps_brief(compute_next_steps(h, used.flow_configs, rails_config=used.config, processing_log=[]))
                    except control.SimControl:
                        raise
                    except Exception as e:
                        got = ("raised", type(e).__name__)
                    out.evaluations += 1
                    out.probe("direct_decision_function_calls")
                    if got != want:
                        out.violate("depends-on-earlier-calls", "compute_next_steps", "compute_next_steps on the %s conversation's history #%d (events without identifiers) after other histories were evaluated for the same flow configuration returns %r; on a fresh configuration %r" % (who, j, got, want))
                        return
                # concurrently
                if len(histories) >= 2:
                    out.probe("reasked_concurrently")

                    async def conc(j):
                        new = await used.generate_events(list(histories[j]))
                        return j, [("bot", e["intent"]) for e in new if e["type"] == "BotIntent"] + [("exec", e["action_name"]) for e in new if e["type"] == "StartInternalSystemAction" and e.get("action_name", "").startswith("act")]

                    res = await asyncio.gather(*[asyncio.ensure_future(conc(j)) for j in range(len(histories))])
                    out.evaluations += len(res)
                    for j, got in res:
                        want = [x if x[0] == "bot" else ("exec", x[1]) for x in fresh_answers[j]]
                        if sorted(got, key=str) != sorted(want, key=str):
                            out.violate("depends-on-earlier-calls", "concurrent-reask", "history %r asked concurrently with the other prefixes: decisions %r, a fresh instance decides %r" % (sc["intents"][: j + 1], got, want))
                            return
                # after dynamic flows were registered on the instance
                first = prog["body"][0]["intent"]
                dyn = cu + [{"type": "UserIntent", "intent": "other"}, {"type": "start_flow", "flow_id": "dyn1", "flow_body": "user %s\nbot hijacked\nuser i1\nbot hijacked again" % first}]
                try:
                    await used.generate_events(dyn)
                    out.probe("reasked_after_dynamic_flow")
                except control.SimControl:
                    raise
                except Exception as e:
                    tr.log("dyn-failed", type(e).__name__)
                for j in order:
                    new, cl = await ask(used, histories[j])
                    out.evaluations += 1
                    got = decisions_of(new, cl)
                    if got != fresh_answers[j]:
                        out.violate("depends-on-earlier-calls", "after-dynamic-flow", "history %r: after another call registered a dynamic flow the used instance decides %r, a fresh instance decides %r" % (sc["intents"][: j + 1], got, fresh_answers[j]))
                        return
                return

            try:
                run_sim(main, start_time=1000.0, max_iterations=600000)
            except control.SimControl:
                raise
            except Exception as e:
                import traceback

                out.violate("runtime-raised", type(e).__name__, "generate_events raised %s: %s" % (type(e).__name__, str(e)[:200]))
        finally:
            seams.uninstall()
        if any(s["k"] == "exec" for s in _all(prog)) and any(s["k"] == "if" and s["var"].startswith("r") for s in _all(prog)):
            out.probe("program_with_action_result_branch")
        if kinds & {"while", "do"} or any(s["k"] == "if" and s["var"].startswith("r") for s in _all(prog)):
            out.nontrivial_sigs.append((text, tuple(sc["intents"])))
        out.digest = tr.digest()
        out.interleaving = (tuple(sorted(kinds)), tuple(sc["intents"]))
        out.sample = {"program": text[-900:], "intents": sc["intents"], "reference_decisions": [[list(x) for x in r[0]] for r in ref][:6]}
        return out

    def same_class(self, a, b):
        return a.oracle == b.oracle and a.sig == b.sig


def _all(prog):
    out = []

    def walk(body):
        for s in body:
            out.append(s)
            for key in ("then", "else", "body"):
                if s.get(key):
                    walk(s[key])
    walk(prog["body"])
    for sub in prog["subflows"]:
        walk(sub["body"])
    return out


def _kinds(prog):
    return [s["k"] for s in _all(prog)]


def _mismatch_kind(got, exp):
    exp = [tuple(x) for x in exp]
    if len(got) < len(exp) and got == exp[: len(got)]:
        return "stopped-early"
    if len(got) > len(exp) and got[: len(exp)] == exp:
        return "went-too-far"
    return "wrong-step"


PROP = C14()
