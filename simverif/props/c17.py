"""C17 - arbitrary LLM output never breaks a turn and is treated as data.

Byzantine-peer fault: the LLM's reply is replaced by a hostile text at every LLM call position of
a fault-free conversation (positions enumerated; corpus sampled in quick, complete in thorough)."""
import copy
import traceback

from ..gen import convo, corpus
from ..kernel import control
from ..kernel.draws import Draws
from ..kernel.trace import Trace
from ..worlds import rails as R
from ..worlds import rails_run as RR
from .base import Outcome
from .c01 import RailsProp

MODES = [("v1:dialog", 3), ("v1:single_call", 2), ("v1:multistep", 2), ("v1:rails_only", 1), ("v1:passthrough", 1), ("v2:v2_llm", 3),
         # the same pipelines with the caller consuming the reply through a streaming handler (what stream_async does): the
         # hostile text then also passes the handlers that generation.py configures (buffering, patterns, hand-over)
         ("v1:single_call+stream", 1), ("v1:dialog+stream", 1)]
V2_TURNS = ["hi", "hello there", "value please", "paraphrase please", "what is the capital of France", "hello again"]
# "generate never returns" is decided by a deterministic work bound (function entries + jumps counted through
# sys.monitoring), not by a wall clock: a fault run may use WORK_FACTOR x the work of the scenario's fault-free run,
# at least WORK_FLOOR and at most WORK_CAP.  Measured on the unchanged tree: fault-free runs need 0.4-3.0 M (the 3.0 M
# includes first-use imports), the costliest hostile reply (200 kB text) 3.9 x its fault-free run and < 2 M in absolute
# terms; a run that uses more than a quarter of its budget is counted in the probe `work_over_quarter_budget` so that a
# thinning margin is seen long before it could alarm.  The endless parser loop of F10a grows a list on every
# iteration (each iteration slower than the last), which is why the bound cannot be generous: 8 M take ~10 s there.
# The wall-clock watchdog only backs this up for loops inside C code and has to fire twice in a row for a verdict.
WORK_FLOOR = 8_000_000
WORK_FACTOR = 10
WORK_CAP = 20_000_000
WALL_BACKSTOP_S = 150.0


import re as _re

SENTINEL_RE = _re.compile(r"Q7(.*?)Q8", _re.S)


def innermost_repo_frame(exc):
    tb = traceback.extract_tb(exc.__traceback__)
    for fr in reversed(tb):
        if "/nemoguardrails/" in fr.filename:
            return "%s:%d" % (fr.filename.split("/nemoguardrails/")[-1], fr.lineno)
    return "outside-repo"


class C17(RailsProp):
    id = "C17"
    level = "fault_enumeration"
    technique = "deterministic simulation with a byzantine LLM peer: hostile text substituted at every LLM call position (enumerated) of seeded multi-turn conversations in every generation mode; oracle = normal return, well-formed reply, literal pass-through"
    rule = ("one scenario = one generation mode (Colang 1.0 three-step dialog, single-call, multi-step, general, passthrough; Colang 2.x llm library: intent detection, flow continuation, value generation, "
            "`bot say something like`) + a 2-4 turn conversation; executed fault-free (P LLM call positions) and then once per (position, hostile text) for every position and a corpus sample "
            "(40 hostile texts + mutations of the well-formed reply). evaluations = executions; non-trivial = executions whose substituted reply was really consumed; "
            "distinct = distinct (mode, task at the position, hostile text name)")
    expected_probes = ["hostile_at_intent_call", "hostile_at_next_steps_call", "hostile_at_bot_message_call", "hostile_at_v2_value_generation", "template_text_survived_literally", "sequence_of_hostile_replies", "exact_variable_reference_survived_literally"]
    exhaustive_parts = ["every LLM call position of every sampled conversation", "the whole hostile corpus per position in the thorough tier"]
    quick_runs = 24
    thorough_runs = 1500
    chunk = 1
    run_timeout_s = 900.0
    ddmin_paths = [("convs", "*", "turns"), ("hostile",)]

    def generate(self, d, index, tier):
        import os

        m = os.environ.get("C17_MODE") or d.weighted(MODES, "mode")
        colang, mode = m.split(":")
        streaming = mode.endswith("+stream")
        mode = mode.replace("+stream", "")
        if colang == "v1":
            sc = convo.gen_spec(d, colang="1.0", max_turns=3, modes=[(mode, 1)], allow_shipped=False)
            sc["in_rails"] = sc["in_rails"][:1]
            sc["out_rails"] = sc["out_rails"][:1]
            sc["verdicts"] = {}
            sc["exceptions"] = False
            while len(sc["convs"][0]["turns"]) < 2:
                t = len(sc["convs"][0]["turns"])
                tk = convo.tok(0, t)
                sc["convs"][0]["turns"].append({"tok": tk, "text": "topic %d more %s" % (t % 3, tk)})
                sc["intents"][tk] = "free"
            # make sure the LLM-heavy paths are taken: at least one free intent (next-step generation)
            sc["intents"][sc["convs"][0]["turns"][-1]["tok"]] = "free"
        else:
            n = d.randint(2, 4, "n")
            texts = [d.choice(V2_TURNS, "t", i) for i in range(n)]
            sc = {"colang": "2.x", "mode": "v2_llm", "in_rails": [], "out_rails": [], "exceptions": False, "verdicts": {}, "intents": {},
                  "convs": [{"turns": [{"tok": "#c0t%d#" % i, "text": t} for i, t in enumerate(texts)]}], "lat_seed": 0, "lat_mode": "zero"}
        if streaming:
            sc["streaming"] = True
            sc["out_rails"] = []
            sc["chunk_seed"] = d.randint(0, 1 << 30, "chunkseed")
        sc["hostile"] = "enumerate"
        sc["corpus_seed"] = d.randint(0, 1 << 30, "cseed")
        sc["per_position"] = 3 if tier == "quick" else len(corpus.HOSTILE) + 4
        sc["sequences"] = 4 if tier == "quick" else 60
        return sc

    def run_one(self, sc, fault, tr):
        """fault: None or [position, name, text]. Returns (records, calls, hang)."""
        def patch(world):
            if fault is not None:
                # one hostile reply, or a sequence of them (further [position, text] pairs after the first three fields)
                table = {fault[0]: fault[2]}
                for p2, t2 in fault[3:]:
                    table[p2] = t2
                world.llm_world.fault_fn = lambda call: table.get(call.n)
        budget = min(WORK_CAP, max(WORK_FLOOR, WORK_FACTOR * getattr(self, "_base_work", 0)))
        for attempt in (0, 1):
            try:
                with control.Watchdog(WALL_BACKSTOP_S):
                    with control.WorkBudget(budget) as wb:
                        world, records = _run(sc, patch, Trace(0) if attempt else tr)
                if fault is None:
                    self._base_work = wb.n
                self._last_work = wb.n
                if fault is not None and wb.n > budget // 4:
                    self._tight = getattr(self, "_tight", 0) + 1
                return records, world.llm_world.calls, False
            except control.StepBudgetExceeded:
                self._hang_kind = "work budget of %d function entries + jumps exceeded" % budget
                break
            except control.SimDeadlock as e:
                where = next((str(t) for t in e.parked if "generate_async" in str(t)), "?")
                self._hang_kind = "nothing is scheduled on the virtual-time loop any more while generate_async has not returned; parked at ...%s" % where[-160:]
                break
            except control.RunTimeout:
                self._hang_kind = "wall-clock backstop of %.0f s fired twice (loop outside Python code)" % WALL_BACKSTOP_S
        return None, None, True

    def judge(self, sc, fault, records, calls, hang, base_replies, out):
        mode = ("v1:" if sc["colang"] == "1.0" else "v2:") + sc["mode"] + ("+stream" if sc.get("streaming") else "")
        pos, name, text = fault[:3]
        task = "?"
        if calls is not None and pos < len(calls):
            task = calls[pos].task
            if task == "unknown":
                tail = (calls[pos].prompt if isinstance(calls[pos].prompt, str) else "").rstrip().split("\n")[-1].strip()
                task = {"user intent:": "v2-intent", "bot intent:": "v2-continuation"}.get(tail, "v2-value" if tail.startswith("$") else "v2-other")
        if hang:
            out.violate("hang", "%s:%s:%s" % (mode, self._task_at(sc, pos), name), "LLM reply %r (%s) at call position %d: generate did not return (%s; the fault-free run needs %d)" % (text[:60], name, pos, getattr(self, "_hang_kind", "?"), getattr(self, "_base_work", 0)), pin={"hostile": [list(fault)]})
            return task
        evaluated = corpus.BY_NAME.get(name, (None, None))[1]
        for rec in records:
            if rec.status != "ok":
                e = rec.exc
                out.violate("raised", "%s:%s:%s:%s" % (mode, task, type(e).__name__, innermost_repo_frame(e)),
                            "LLM reply %r (%s) substituted at call %d (%s): generate raised %s: %s" % (text[:80], name, pos, task, type(e).__name__, str(e)[:200]), pin={"hostile": [list(fault)]})
                continue
            ok = (rec.reply_role == "assistant" and isinstance(rec.reply, str)) or (rec.reply_role == "exception" and isinstance(rec.reply, dict))
            if not ok:
                out.violate("malformed-reply", "%s:%s" % (mode, task), "LLM reply %r (%s) at call %d (%s): reply message is %r" % (text[:80], name, pos, task, rec.raw), pin={"hostile": [list(fault)]})
            if name.startswith("seq:"):
                continue  # sequences of hostile replies: completion and well-formedness only (the literal clauses compare with ONE injected text)
            if evaluated and isinstance(rec.reply, str) and evaluated in rec.reply and evaluated not in base_replies:
                out.violate("template-evaluated", "%s:%s:%s" % (mode, task, name), "LLM reply %r at call %d (%s) came back evaluated: %r" % (text, pos, task, rec.reply), pin={"hostile": [list(fault)]})
            # generic form for texts with sentinels: Q7<syntax>Q8 came back as Q7<something without the syntax opener>Q8
            if isinstance(rec.reply, str) and not any(v.oracle == "template-evaluated" for v in out.violations[-1:]):
                m_in = SENTINEL_RE.search(text)
                if m_in:
                    opener = next((o for o in ("{{", "{%", "{$", "$", "{") if o in m_in.group(1)), None)
                    for m_out in SENTINEL_RE.finditer(rec.reply):
                        if opener and m_out.group(1) != m_in.group(1) and opener not in m_out.group(1) and m_out.group(0) not in base_replies:
                            out.violate("template-evaluated", "%s:%s:%s" % (mode, task, name), "LLM reply %r at call %d (%s): its message text came back as %r - the %r syntax was evaluated/substituted: %r"
                                        % (text, pos, task, m_out.group(0), opener, rec.reply), pin={"hostile": [list(fault)]})
                            break
            # texts ending in the marker Q8end: if the marker reached the reply, the text before it must have come along literally
            if name.startswith("dollar-") and isinstance(rec.reply, str) and "Q8end" in rec.reply and "Q8end" not in base_replies:
                lit = text.strip().strip('"')
                if lit not in rec.reply:
                    out.violate("template-evaluated", "%s:%s:%s" % (mode, task, name), "LLM reply %r at call %d (%s) came back as %r: the text in front of the marker was substituted" % (text, pos, task, rec.reply), pin={"hostile": [list(fault)]})
            # a message that is exactly a variable reference: the user's own text (or any other variable's value) must not come back in
            # its place, and where the call produces the bot message of the turn the reference itself is what the user reads
            if name.startswith("exact-var-") and isinstance(rec.reply, str):
                lit = text.strip().strip('"')
                user_texts = [t["text"] for c in sc["convs"] for t in c["turns"] if t.get("text")]
                if rec.reply not in base_replies and any(u == rec.reply.strip() for u in user_texts):
                    out.violate("template-evaluated", "%s:%s:%s" % (mode, task, name), "LLM reply %r at call %d (%s) came back as the user's own message %r: the variable reference was resolved" % (text, pos, task, rec.reply), pin={"hostile": [list(fault)]})
                elif task == "generate_bot_message" and "internal error" in rec.reply and "internal error" not in base_replies:
                    out.violate("template-evaluated", "%s:%s:%s" % (mode, task, name), "LLM reply %r at call %d (%s): the turn ended with %r instead of the text - the variable reference was resolved to a non-text value" % (text, pos, task, rec.reply), pin={"hostile": [list(fault)]})
                elif lit in rec.reply:
                    out.probe("exact_variable_reference_survived_literally")
            # a well-formed quoted value: if its sentinel-wrapped text reached the reply at all, it is there character by character
            # (only where the reply is read as a value, and only for template / variable syntax - escape sequences are not the property's subject)
            if name in ("shaped-value-jinja", "shaped-value-var") and task == "v2-value" and isinstance(rec.reply, str) and "Q7" in rec.reply and "Q7" not in base_replies:
                import ast
                seg = SENTINEL_RE.search(ast.literal_eval(text.strip())).group(0)
                if seg in rec.reply:
                    out.probe("template_text_survived_literally")
                elif not any(v.oracle == "template-evaluated" for v in out.violations[-1:]):
                    out.violate("template-evaluated", "%s:%s:%s" % (mode, task, name), "LLM value %r at call %d (%s) came back as %r: the text %r was altered" % (text, pos, task, rec.reply, seg), pin={"hostile": [list(fault)]})
            if evaluated and isinstance(rec.reply, str) and text.strip().strip('"') in rec.reply:
                out.probe("template_text_survived_literally")
        return task

    def _task_at(self, sc, pos):
        return self._base_tasks[pos] if pos < len(getattr(self, "_base_tasks", [])) else "?"

    def execute(self, sc):
        out = Outcome()
        tr = Trace(sc.get("run_seed"))
        mode = ("v1:" if sc["colang"] == "1.0" else "v2:") + sc["mode"] + ("+stream" if sc.get("streaming") else "")
        self._base_work = 0
        self._tight = 0
        records, calls, hang = self.run_one(sc, None, tr)
        out.evaluations = 1
        if hang or any(r.status != "ok" for r in records):
            out.inconclusive = "fault-free run failed"
            out.digest = tr.digest()
            return out
        base_replies = " || ".join(r.reply for r in records if isinstance(r.reply, str))
        P = len(calls)
        self._base_tasks = [_task_label(c) for c in calls]
        base_text = [c.reply for c in calls]
        if sc["hostile"] == "enumerate":
            d = Draws(sc["corpus_seed"])
            faults = []
            for p in range(P):
                names = [n for n, _, _ in corpus.HOSTILE]
                k = min(len(names), sc.get("per_position", 5))
                pick = names if k >= len(names) else d.sample(names, k, "pick", p)
                # the trouble-makers are always included
                # always included: the classic trouble-makers, one position-shaped reply, and the replies that are
                # dangerous for this particular call (a generated flow that only waits; literals for value generation)
                lab = self._base_tasks[p]
                special = ("shaped-steps-user-only", "newlines", "blank-then-prose") if "next_steps" in lab else (("ellipsis", "python-import", "python-bytes", "python-complex", "python-set", "shaped-value-jinja", "shaped-value-var", "shaped-value-backslash") if lab == "v2-value" else ())
                if "bot_message" in lab or lab in ("general", "generate_intent_steps_message", "v2-other", "unknown"):
                    special = special + ("dollar-price", d.choice(["dollar-var-first", "dollar-var-quoted"], "dollar", p), d.choice(["exact-var-quoted", "exact-var-bare", "exact-var-object"], "exactvar", p))
                for must in ("empty", "jinja-expr", "shaped-steps-inline-jinja", d.choice(corpus.SHAPED, "shaped", p)) + special:
                    if must not in pick:
                        pick.append(must)
                for n in pick:
                    faults.append([p, n, corpus.BY_NAME[n][0]])
                faults.append([p, "mutation", corpus.mutate(base_text[p] or "", d, "mut", p)])
            # sequences: hostile replies at two or three call positions of the same conversation (positions are call numbers of the
            # run as it unfolds - after the first hostile reply the later calls may be other calls than in the fault-free run)
            names = [n for n, _, _ in corpus.HOSTILE]
            for j in range(sc.get("sequences", 0) if P >= 2 else 0):
                k = 3 if P >= 3 and d.chance(0.3, "seqlen", j) else 2
                ps = sorted(d.sample(list(range(P)), k, "seqpos", j))
                ns = [d.choice(names, "seqname", j, i) for i in range(k)]
                faults.append([ps[0], "seq:" + "+".join(ns), corpus.BY_NAME[ns[0]][0]] + [[ps[i], corpus.BY_NAME[ns[i]][0]] for i in range(1, k)])
        else:
            faults = [list(f) for f in sc["hostile"]]
        for fault in faults:
            tr.log("fault", fault[0], fault[1], [x[0] for x in fault[3:]])
            if fault[3:]:
                out.probe("sequence_of_hostile_replies")
            recs, cls, hg = self.run_one(sc, fault, tr)
            out.evaluations += 1
            out.fault("peer_garbage")
            task = self.judge(sc, fault, recs, cls, hg, base_replies, out)
            lab = self._task_at(sc, fault[0])
            if "intent" in lab and "steps" not in lab:
                out.probe("hostile_at_intent_call")
            if "next_steps" in lab or "continuation" in lab:
                out.probe("hostile_at_next_steps_call")
            if "bot_message" in lab or lab in ("general", "generate_intent_steps_message"):
                out.probe("hostile_at_bot_message_call")
            if lab == "v2-value":
                out.probe("hostile_at_v2_value_generation")
            out.nontrivial_sigs.append((mode, lab, fault[1]))
        for _ in range(self._tight):
            out.probe("work_over_quarter_budget")
        out.digest = tr.digest()
        out.interleaving = (mode, tuple(self._base_tasks))
        out.sample = {"mode": mode, "turns": [t["text"] for t in sc["convs"][0]["turns"]], "llm_call_positions": self._base_tasks, "faults_executed": len(faults),
                      "example_fault": faults[0][:2] + [faults[0][2][:60]] if faults else None, "fault_free_replies": base_replies[:300]}
        return out

    def shrink(self, sc):
        if sc["hostile"] == "enumerate":
            # pin to explicit single faults
            o = Outcome()
            records, calls, hang = self.run_one(sc, None, Trace(0))
            if hang or records is None:
                return
            for p in range(len(calls)):
                for n, t, _ in corpus.HOSTILE:
                    c = copy.deepcopy(sc)
                    c["hostile"] = [[p, n, t]]
                    yield c
            return
        for c in super().shrink(sc):
            yield c

    def same_class(self, a, b):
        sa, sb = a.sig.split(":"), b.sig.split(":")
        if a.oracle != b.oracle:
            return False
        if a.oracle == "raised":
            return sa[:3] == sb[:3] and sa[3:5] == sb[3:5]  # mode, task, exc type and frame
        return sa[:3] == sb[:3]


def _task_label(c):
    if c.task != "unknown":
        return c.task
    tail = (c.prompt if isinstance(c.prompt, str) else "").rstrip().split("\n")[-1].strip()
    return {"user intent:": "v2-intent", "bot intent:": "v2-continuation"}.get(tail, "v2-value" if tail.startswith("$") else "v2-other")


def _run(sc, patch, tr):
    """rails_run.run_conversations with a hook to install the fault function on the world."""
    orig = R.RailsWorld.__init__

    def init(self, *a, **kw):
        orig(self, *a, **kw)
        patch(self)

    R.RailsWorld.__init__ = init
    try:
        if sc.get("streaming"):
            return _run_streaming(sc, tr)
        return RR.run_conversations(sc, tr=tr, max_iterations=300000)
    finally:
        R.RailsWorld.__init__ = orig


def _run_streaming(sc, tr):
    """run_conversations for one Colang 1.0 conversation whose replies are consumed through a streaming handler."""
    import asyncio

    from nemoguardrails.streaming import StreamingHandler

    from ..kernel import seams
    from ..kernel.loop import run_sim

    holder = {}

    def clock():
        lp = holder.get("loop")
        return lp.time() if lp is not None else 0.0

    ctx = seams.SimContext(clock=clock)
    seams.install(ctx)
    seams.reset_run_state(ctx)
    try:
        world = R.RailsWorld(sc, loop_clock=clock, latency=lambda call: 0.0, action_latency=lambda kind, name, n: 0.0)
        cd = Draws(sc.get("chunk_seed", 0))

        def chunker(call, reply):
            cuts = [i for i in range(1, min(len(reply), 400)) if cd.unit("cut", call.n, i) < 0.2]
            return [reply[a:b] for a, b in zip([0] + cuts, cuts + [len(reply)])]

        world.llm_world.chunker = chunker
        records = []

        async def main(loop):
            holder["loop"] = loop
            msgs = []
            for t, turn in enumerate(sc["convs"][0]["turns"]):
                rec = RR.TurnRecord(0, t, turn["tok"], turn["text"])
                h0 = len(world.history)
                msgs.append({"role": "user", "content": turn["text"]})
                h = StreamingHandler()
                got = []

                async def consume(hh=h, g=got):
                    async for c in hh:
                        g.append(c)

                ct = asyncio.ensure_future(consume())
                st, res = await world.generate("c0", messages=msgs, streaming_handler=h)
                await asyncio.sleep(0.5)
                if not ct.done():
                    ct.cancel()
                    try:
                        await ct
                    except asyncio.CancelledError:
                        pass
                rec.events = [e for e in world.history[h0:] if e["kind"] != "request"]
                rec.status = st
                if st == "ok":
                    msg = res.response[0] if hasattr(res, "response") and isinstance(res.response, list) else res
                    rec.raw = msg
                    rec.reply_role = msg.get("role") if isinstance(msg, dict) else None
                    rec.reply = msg.get("content") if isinstance(msg, dict) else None
                    if rec.reply_role == "assistant" and isinstance(rec.reply, str):
                        msgs.append({"role": "assistant", "content": rec.reply})
                else:
                    rec.exc = res
                    msgs.pop()
                rec.streamed = "".join(x for x in got if isinstance(x, str))
                records.append(rec)
                if tr is not None:
                    tr.log("turn", 0, t, st, rec.reply_role, rec.reply if isinstance(rec.reply, (str, type(None))) else repr(rec.reply), repr(rec.exc) if rec.exc else None)
            return loop.time()

        run_sim(main, start_time=1000.0, max_iterations=300000)
        return world, records
    finally:
        seams.uninstall()


PROP = C17()
