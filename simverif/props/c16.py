"""C16 - generation options run exactly the selected rail categories (Colang 1.0).

Honest fit statement (DESIGN C16): nothing here depends on a schedule or a fault.  The simulator
contributes ground truth the system cannot fake: which rail actions and LLM calls really happened
(seam history), against which the system's own report (log.activated_rails, stop) is compared.
"""
import copy
import itertools

from ..gen import convo
from ..kernel.trace import Trace
from ..worlds import rails as R
from ..worlds import rails_run as RR
from .base import Outcome
from .c01 import RailsProp, cfgclass

CATS = ["input", "dialog", "retrieval", "output"]
MODES = [("rails_only", 3), ("dialog", 3), ("passthrough", 1)]


def flow_name(spec, rail):
    side = "in" if rail.startswith("in") else "out"
    i = int(rail[-1])
    return R._rail_flow_name(side, i, spec["%s_rails" % side][i])


class C16(RailsProp):
    id = "C16"
    level = "exploration"
    technique = "deterministic simulation of LLMRails with stub LLM/actions: option subsets x verdict vectors executed in the simulated world; the returned log and reply are compared with the simulator's ground-truth seam history and the documented table"
    rule = ("one run = one Colang 1.0 configuration (0-3 input/output rails), one subset of {input, dialog, retrieval, output} (all 16 subsets are cycled through by run index), a verdict vector "
            "(allow/block/rewrite per rail), a supplied bot message when dialog is off, asked as a single call or as request k of a conversation whose earlier requests are normal turns or carry "
            "option subsets and verdicts of their own (every optioned request is judged), continued through the message list or through the returned state object. "
            "non-trivial = runs with a proper subset selected and at least one rail configured in a category; distinct = distinct (mode, subset, rail kinds, verdict vector, position)")
    assumptions = ["no schedule/fault dimension exists for this property; the simulator only supplies ground truth (seam history) and determinism"]
    expected_probes = ["retrieval_rails_ran", "input_only", "input_output_with_bot_message", "output_only", "blocked_with_stop_flag", "rewritten", "as_later_turn", "after_earlier_optioned_request"]
    exhaustive_parts = ["all 16 subsets of the four categories (cycled by run index)"]
    quick_runs = 640
    thorough_runs = 60000
    chunk = 10

    def generate(self, d, index, tier):
        sc = convo.gen_spec(d, colang="1.0", max_turns=1, modes=MODES)
        subsets = [list(c) for k in range(5) for c in itertools.combinations(CATS, k)]
        sc["subset"] = subsets[index % 16]
        sc["prior_turns"] = d.weighted([(0, 3), (1, 2), (2, 1)], "prior")
        sc["bot_tok_text"] = "LLM[x%s] generated answer" % sc["convs"][0]["turns"][0]["tok"]
        # earlier requests of the same conversation may carry options of their own (any subset) and meet verdicts of
        # their own: a flag or context value left behind by a request that ran with one subset must not change what
        # runs in a later request with another subset.  The conversation is continued the two ways the API offers:
        # the message list (events cache of the instance) or the returned state object.
        sc["continuity"] = d.choice(["messages", "state"], "cont")
        sc["ret_rails"] = d.weighted([(0, 3), (1, 3), (2, 1)], "retrails")
        sc["opt_style"] = d.randint(0, 1, "optstyle")
        plan = []
        for k in range(sc["prior_turns"]):
            tk = "#c0t%d#" % (k + 5)
            if d.chance(0.6, "popt", k):
                sub = subsets[d.randint(0, 15, "psub", k)]
                for side in ("in", "out"):
                    for i, r in enumerate(sc["%s_rails" % side]):
                        v = d.weighted([("allow", 5), ("block", 3)] + ([("rewrite", 2)] if r["kind"] != "shipped" else []), "pverdict", side, i, k)
                        if r["kind"] == "rewrite_assign" and v == "block":
                            v = "rewrite"
                        if v != "allow":
                            sc["verdicts"].setdefault("%s%d" % (side, i), {})[tk] = v
                plan.append({"subset": sub})
            else:
                plan.append({"subset": None})
        sc["prior_plan"] = plan
        return sc

    def execute(self, sc):
        out = Outcome()
        tr = Trace(sc.get("run_seed"))
        final_turn = sc["convs"][0]["turns"][0]
        spec = copy.deepcopy(sc)
        plan = sc["prior_plan"] if "prior_plan" in sc else [{"subset": None}] * sc.get("prior_turns", 0)
        turns, per_turn = [], []
        for k, pl in enumerate(list(plan) + [{"subset": sc["subset"], "final": True}]):
            if pl.get("final"):
                tk, text = final_turn["tok"], final_turn["text"]
            else:
                tk = "#c0t%d#" % (k + 5)
                text = "topic %d earlier %s" % (k, tk)
                spec["intents"][tk] = "free"
            S = None if pl["subset"] is None else set(pl["subset"])
            supplied = None
            if S is not None and "dialog" not in S:
                supplied = "LLM[x%s] generated answer" % tk
                if S - {"retrieval"} == {"output"}:
                    text = ""
            turns.append({"tok": tk, "text": text})
            per_turn.append((S, text, supplied))
        spec["convs"] = [{"turns": turns}]
        continuity = sc.get("continuity", "messages")
        world, records = _run_plan(spec, per_turn, continuity, tr)
        out.evaluations = len(records)
        out.sim_seconds = getattr(world, "sim_seconds", 0.0)
        if len(plan):
            out.probe("as_later_turn")
        if any(S is not None for S, _, _ in per_turn[:-1]):
            out.probe("after_earlier_optioned_request")
        for t, rec in enumerate(records):
            S, user_text, supplied = per_turn[t]
            if rec.status != "ok":
                out.inconclusive = "generate raised %s" % type(rec.exc).__name__
                tr.log("exc", repr(rec.exc))
                break
            if S is None:
                continue
            self._judge(sc, spec, S, user_text, supplied, rec, t, len(records) - 1, continuity, out, tr)
        out.digest = tr.digest()
        rec = records[-1]
        S, user_text, supplied = per_turn[-1]
        ev = RR.normalise_events(spec, rec.events)
        out.interleaving = (cfgclass(sc), tuple(sorted(S)), tuple((e["kind"], e.get("rail") or e.get("task") or e.get("name")) for e in ev))
        out.sample = {"mode": sc["mode"], "continuity": continuity, "requests": [{"options.rails": None if s_ is None else sorted(s_), "user": u_, "bot_message": b_} for s_, u_, b_ in per_turn],
                      "in_rails": sc["in_rails"], "out_rails": sc["out_rails"], "verdicts": sc["verdicts"],
                      "replies": [r.reply if isinstance(r.reply, str) else repr(r.reply)[:100] for r in records],
                      "seam_last": [(e["kind"], e.get("rail") or e.get("task") or e.get("name"), e.get("verdict")) for e in ev]}
        return out

    def _judge(self, sc, spec, S, user_text, supplied, rec, t, last, continuity, out, tr):
        pos = "" if t == last else ":earlier-request"
        cc = cfgclass(sc) + ":" + ("+".join(sorted(S)) or "none") + pos
        ev = RR.normalise_events(spec, rec.events)
        in_inv = [e for e in ev if e["kind"] == "rail" and e["rail"].startswith("in")]
        out_inv = [e for e in ev if e["kind"] == "rail" and e["rail"].startswith("out")]
        gens = [e for e in ev if e["kind"] == "gen"]
        # 1. exactly the selected categories ran
        if "input" not in S and in_inv:
            out.violate("unselected-category-ran", cc + ":input", "request %d: input rails %r ran although 'input' was not selected" % (t, [e["rail"] for e in in_inv]))
        if "output" not in S and out_inv:
            out.violate("unselected-category-ran", cc + ":output", "request %d: output rails %r ran although 'output' was not selected" % (t, [e["rail"] for e in out_inv]))
        ret_inv = [e for e in rec.events if e["kind"] == "retrieval"]
        if ret_inv:
            out.probe("retrieval_rails_ran")
        if "retrieval" not in S and ret_inv:
            out.violate("unselected-category-ran", cc + ":retrieval", "request %d: retrieval rails %r ran although 'retrieval' was not selected (options rails=%r)" % (t, [e["name"] for e in ret_inv], sorted(S)))
        if "dialog" not in S and gens:
            out.violate("llm-generation-with-dialog-off", cc, "request %d: LLM task(s) %r were prompted although 'dialog' was not selected" % (t, [g["task"] for g in gens]))
        in_block = None
        in_final = user_text
        if "input" in S and sc["in_rails"]:
            exp_seq, in_block, in_final = RR.expected_chain(spec, "in", user_text)
            if [(e["rail"], e["text"]) for e in in_inv] != exp_seq:
                out.violate("selected-category-incomplete", cc + ":input", "request %d: input rails invoked %r, expected %r" % (t, [(e["rail"], e["text"]) for e in in_inv], exp_seq))
        # 2. the documented replies (dialog off)
        fam = S - {"retrieval"}
        expected_reply = None
        out_block = None
        if "dialog" not in S:
            if in_block:
                expected_reply = ("block", in_block)
            elif "output" in S:
                if sc["out_rails"]:
                    exp_seq, out_block, out_final = RR.expected_chain(spec, "out", supplied)
                    got = [(e["rail"], e["text"]) for e in out_inv]
                    if got[:len(exp_seq)] != exp_seq:
                        out.violate("selected-category-incomplete", cc + ":output", "request %d (%s continuity, earlier requests: %s): output rails invoked %r on the supplied bot message, expected %r"
                                    % (t, continuity, _plan_brief(sc), got, exp_seq))
                    expected_reply = ("block", out_block) if out_block else ("text", out_final)
                else:
                    expected_reply = ("text", supplied)
            elif fam == {"input"}:
                expected_reply = ("text", in_final)
            if fam == {"input"}:
                out.probe("input_only")
            elif fam == {"input", "output"}:
                out.probe("input_output_with_bot_message")
            elif fam == {"output"}:
                out.probe("output_only")
            if expected_reply and fam in ({"input"}, {"input", "output"}, {"output"}):
                kind, val = expected_reply
                if kind == "text":
                    if val != user_text and val != supplied:
                        out.probe("rewritten")
                    if not (rec.reply_role == "assistant" and rec.reply == val):
                        out.violate("documented-reply", cc + ":" + ("rewritten" if val not in (user_text, supplied) else "unchanged"),
                                    "request %d (%s continuity, earlier requests: %s): options rails=%r, user %r, bot message %r: reply is %r (%s), documented: %r"
                                    % (t, continuity, _plan_brief(sc), sorted(S), user_text, supplied, rec.reply, rec.reply_role, val))
                else:
                    blockers = [e["rail"] for e in ev if e["kind"] == "rail" and e.get("verdict") == "block"] or [val]
                    if not any(RR.reply_is_block_of(spec, rec, b) for b in blockers):
                        out.violate("documented-reply", cc + ":refusal", "request %d (%s continuity, earlier requests: %s): options rails=%r: rail %s rejected but the reply is %r (%s)"
                                    % (t, continuity, _plan_brief(sc), sorted(S), val, rec.reply, rec.reply_role))
        # 3. the log lists the rails that actually ran, stop on exactly the rail that blocked
        log = getattr(rec.full, "log", None) if getattr(rec, "full", None) is not None else None
        if log is not None and log.activated_rails is not None:
            listed = [(ar.type, ar.name, bool(ar.stop)) for ar in log.activated_rails if ar.type in ("input", "output")]
            truth = []
            for e in ev:
                if e["kind"] == "rail":
                    typ = "input" if e["rail"].startswith("in") else "output"
                    truth.append((typ, flow_name(spec, e["rail"]), e.get("verdict") == "block"))
            if [(a, b) for a, b, _ in listed] != [(a, b) for a, b, _ in truth]:
                out.violate("log-lists-wrong-rails", cc, "request %d: log.activated_rails lists %r; the rail actions really invoked were %r" % (t, [(a, b) for a, b, _ in listed], [(a, b) for a, b, _ in truth]))
            elif [s for _, _, s in listed] != [s for _, _, s in truth]:
                out.violate("log-stop-flag", cc + (":exceptions" if sc.get("exceptions") else ""), "request %d: log.activated_rails stop flags %r; the rails that really rejected: %r" % (t, listed, truth))
            # ... and the retrieval rails that ran: the log has no rail type of their own for them (they run inside the flow that
            # generates the bot message), their actions are listed among the executed actions of the activated rails
            listed_ret = sum(1 for ar in log.activated_rails for ea in (ar.executed_actions or []) if ea.action_name == "sim_retrieval")
            truth_ret = sum(1 for e in rec.events if e["kind"] == "retrieval")
            if listed_ret != truth_ret:
                out.violate("log-lists-wrong-rails", cc + ":retrieval-actions", "request %d: log.activated_rails lists %d executed retrieval rail action(s); %d were really invoked" % (t, listed_ret, truth_ret))
            if any(s for _, _, s in truth):
                out.probe("blocked_with_stop_flag")
        else:
            out.violate("log-missing", cc, "request %d: no activated_rails log returned" % t)
        if S != set(CATS) and (sc["in_rails"] or sc["out_rails"]):
            out.nontrivial_sigs.append((cc, tuple(r["kind"] for r in sc["in_rails"]), tuple(r["kind"] for r in sc["out_rails"]), tuple(sorted((k, tuple(sorted(v.items()))) for k, v in sc["verdicts"].items())), t, continuity, bool(sc.get("exceptions"))))
        tr.log("result", t, rec.reply_role, rec.reply if isinstance(rec.reply, str) else repr(rec.reply)[:80], [(e["kind"], e.get("rail") or e.get("task") or e.get("name")) for e in ev])

    ddmin_paths = [("in_rails",), ("out_rails",), ("subset",), ("prior_plan",)]


def _plan_brief(sc):
    return [None if p["subset"] is None else "+".join(p["subset"]) or "none" for p in sc.get("prior_plan", [])]


def _run_plan(spec, per_turn, continuity, tr):
    """Serve the requests of one conversation; request t carries options rails=S_t (or none) and, when dialog is off,
    a supplied assistant message.  continuity "messages": the growing message list (the instance's events cache links
    the requests); "state": every request passes the state object the previous one returned and only its new messages."""
    import asyncio

    from ..kernel import seams
    from ..kernel.loop import run_sim

    holder = {}
    llm_lat, act_lat = convo.latency_fns(spec)

    def clock():
        lp = holder.get("loop")
        return lp.time() if lp is not None else 0.0

    ctx = seams.SimContext(clock=clock)
    seams.install(ctx)
    seams.reset_run_state(ctx)
    try:
        world = R.RailsWorld(spec, loop_clock=clock, latency=llm_lat, action_latency=act_lat)
        records = []

        async def main(loop):
            holder["loop"] = loop
            msgs = []
            state = {}
            for t, turn in enumerate(spec["convs"][0]["turns"]):
                S, user_text, supplied = per_turn[t]
                rec = RR.TurnRecord(0, t, turn["tok"], turn["text"])
                h0 = len(world.history)
                new = [{"role": "user", "content": turn["text"]}]
                if supplied is not None:
                    new.append({"role": "assistant", "content": supplied})
                opts = None
                if S is not None:
                    # the option accepts a list of category names or a dict of flags: both spellings, alternating
                    rails_opt = sorted(S) if (t + int(spec.get("opt_style", 0))) % 2 == 0 else {c: (c in S) for c in CATS}
                    opts = {"rails": rails_opt, "log": {"activated_rails": True}}
                if continuity == "state":
                    st, res = await world.generate("c0", messages=new, options=opts, state=state)
                else:
                    st, res = await world.generate("c0", messages=msgs + new, options=opts)
                rec.events = [e for e in world.history[h0:] if e["kind"] != "request"]
                rec.status = st
                rec.full = None
                if st == "ok":
                    msg = res
                    if hasattr(res, "response"):
                        rec.full = res
                        msg = res.response[0] if isinstance(res.response, list) else {"role": "assistant", "content": res.response}
                        if continuity == "state" and getattr(res, "state", None) is not None:
                            state = res.state
                    rec.raw = msg
                    rec.reply_role = msg.get("role")
                    rec.reply = msg.get("content")
                    msgs.append({"role": "user", "content": turn["text"]})
                    if msg.get("role") == "assistant":
                        msgs.append({"role": "assistant", "content": msg.get("content")})
                else:
                    rec.exc = res
                records.append(rec)
                if tr is not None:
                    tr.log("turn", t, st, rec.reply_role)
            return loop.time()

        t_end, loop = run_sim(main, start_time=1000.0, max_iterations=400000)
        world.sim_seconds = t_end - 1000.0
        return world, records
    finally:
        seams.uninstall()


PROP = C16()
