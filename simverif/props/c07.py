"""C07 - and/or groups behave like the boolean formula they spell.

A random and/or formula over <= 6 leaves used in match (events), await and when (child flows);
all delivery orders for <= 5 leaves (exhaustive), sampled above; duplicates, irrelevant events and
deliveries before the statement became active; tie-breaks decided by the scheduler."""
import copy
import itertools

from ..gen import colang2 as G
from ..kernel import control, seams
from ..kernel.draws import Draws
from ..kernel.trace import Trace
from ..worlds import interp as I
from .base import Outcome
from .interp_base import InterpProp

LEAVES = ["A", "B", "C", "D", "E", "F"]


def gen_formula(d, leaves, depth, key, distinct=False):
    """distinct=True: every leaf occurs at most once (the leaves are partitioned among the arguments)."""
    if depth == 0 or len(leaves) == 1 or d.chance(0.25, key, "leaf"):
        return d.choice(leaves, key, "l")
    op = d.choice(["and", "or"], key, "op")
    n = d.randint(2, 3, key, "n")
    if not distinct:
        return {"op": op, "args": [gen_formula(d, leaves, depth - 1, (key, i)) for i in range(n)]}
    n = min(n, len(leaves))
    parts = [[] for _ in range(n)]
    for j, l in enumerate(d.shuffle(leaves, key, "part")):
        parts[j % n].append(l)
    return {"op": op, "args": [gen_formula(d, p, depth - 1, (key, i), True) for i, p in enumerate(parts)]}


def dnf_size(f):
    """Number of and-groups of the disjunctive normal form."""
    if isinstance(f, str):
        return 1
    sizes = [dnf_size(a) for a in f["args"]]
    if f["op"] == "or":
        return sum(sizes)
    n = 1
    for x in sizes:
        n *= x
    return n


def dnf_group_lengths(f):
    """Lengths of the and-groups of the (non-deduplicated) disjunctive normal form."""
    if isinstance(f, str):
        return [1]
    parts = [dnf_group_lengths(a) for a in f["args"]]
    if f["op"] == "or":
        return [x for p in parts for x in p]
    out = [0]
    for p in parts:
        out = [a + b for a in out for b in p]
        if len(out) > 5000:
            return out
    return out


def leaves_of(f):
    if isinstance(f, str):
        return [f]
    out = []
    for a in f["args"]:
        for x in leaves_of(a):
            if x not in out:
                out.append(x)
    return out


def evaluate(f, got):
    if isinstance(f, str):
        return f in got
    vals = [evaluate(a, got) for a in f["args"]]
    return all(vals) if f["op"] == "and" else any(vals)


def render_formula(f, leaf):
    if isinstance(f, str):
        return leaf(f)
    return "(" + (" %s " % f["op"]).join(render_formula(a, leaf) for a in f["args"]) + ")"


def program_for(sc):
    """leaf_style 'name': every leaf is its own event / flow (EvA, leaf a); 'param': all leaves share one event
    name / one flow and differ only in an argument (Ev(k=1), leaf 1)."""
    form = sc["form"]
    f = sc["formula"]
    param = sc.get("leaf_style") == "param"
    k_of = lambda l: LEAVES.index(l) + 1
    ev_leaf = (lambda l: "Ev(k=%d)" % k_of(l)) if param else (lambda l: "Ev%s()" % l)
    flow_leaf = (lambda l: "leaf %d" % k_of(l)) if param else (lambda l: "leaf %s" % l.lower())
    lines = []
    if form == "match":
        stmt = "  match " + render_formula(f, ev_leaf)
        body = [stmt, "  send Done()"]
    elif form == "await":
        body = ["  await " + render_formula(f, flow_leaf), "  send Done()"]
    else:
        f2 = sc["formula2"]
        body = ["  when " + render_formula(f, flow_leaf), "    send Done()", "  or when " + render_formula(f2, flow_leaf), "    send Done2()"]
        if sc.get("with_fail"):
            body += ["  else", "    send Else()"]
    lines.append("flow main")
    lines.append("  match Go()")
    if sc.get("rounds", 1) > 1:
        # the same statement is executed again by the same flow instance (after an Again event)
        lines.append("  while True")
        lines += ["  " + b for b in body]
        lines.append("    match Again()")
    else:
        lines += body
        lines.append("  match Never()")
    lines.append("")
    if form != "match":
        # with_fail: a leaf flow can also FAIL (on its own Fail event): a failed flow can never satisfy its leaf any more
        if param:
            lines += ["flow leaf $k"] + (["  when Ev(k=$k)", "    return", "  or when Fail(k=$k)", "    abort", ""] if sc.get("with_fail") else ["  match Ev(k=$k)", ""])
        else:
            used = leaves_of(f) + (leaves_of(sc["formula2"]) if form == "when" else [])
            for l in sorted(set(used)):
                if l in (sc.get("instant") or []):
                    # a leaf flow that has nothing to wait for: it finishes in the step that starts it
                    lines += ["flow leaf %s" % l.lower(), "  $done = 1", ""]
                    continue
                lines += ["flow leaf %s" % l.lower()] + (["  when Ev%s()" % l, "    return", "  or when Fail%s()" % l, "    abort", ""] if sc.get("with_fail") else ["  match Ev%s()" % l, ""])
    return "\n".join(lines)


def leaf_event(sc, l, fail=False):
    if sc.get("leaf_style") == "param":
        return {"type": "Fail" if fail else "Ev", "k": LEAVES.index(l) + 1}
    return {"type": ("Fail%s" if fail else "Ev%s") % l}


class C07(InterpProp):
    id = "C07"
    level = "exploration"
    technique = "deterministic simulation of the Colang 2 interpreter: delivery-order permutations (all orders for <= 5 leaves), duplicated, irrelevant and premature deliveries, scheduler-decided tie-breaks; oracle = direct evaluation of the boolean formula"
    rule = ("one scenario = one random and/or formula (<= 6 distinct leaves, nesting <= 3, repeated leaves allowed) in a match (leaves = events), await or when (leaves = child flows waiting for one event each) statement "
            "that becomes active after Go(); executed under ALL delivery orders of its leaf events when it has <= 5 leaves (exhaustive for that formula), 60 seeded orders otherwise, each order with seeded "
            "duplicates, irrelevant events and leaf events delivered before Go(). evaluations = (formula, order) executions; non-trivial = formulas with both and and or; distinct = distinct (form, formula, order)")
    exhaustive_parts = ["all delivery orders of the leaf events for every generated formula with <= 5 leaves"]
    expected_probes = ["leaf_flow_failed", "all_alternatives_failed", "form_match", "form_await", "form_when", "leaves_by_name", "leaves_by_param", "exhaustive_orders", "premature_delivery", "duplicate_delivery", "tie_break_decided"]
    quick_runs = 700
    thorough_runs = 60000
    chunk = 20
    ddmin_paths = [("orders",)]

    def generate(self, d, index, tier):
        n = d.randint(2, 6, "nleaves")
        leaves = LEAVES[:n]
        form = d.choice(["match", "await", "when"], "form")
        sc = {"form": form, "formula": gen_formula(d, leaves, 3, "f")}
        # bound the size of the normal form (and-groups x literals): beyond it every execution takes seconds
        for attempt in range(1, 12):
            gl = dnf_group_lengths(sc["formula"])
            if len(gl) <= 12 and sum(gl) <= 40:
                break
            sc["formula"] = gen_formula(d, leaves, 3 if attempt < 4 else 2, ("f", attempt))
        if form == "when":
            k = max(1, n // 2)
            # a flow occurs at most once in a when statement (C07: formulas over distinct flows)
            sc["formula"] = gen_formula(d, leaves[:k], 2, "f1", distinct=True)
            sc["formula2"] = gen_formula(d, leaves[k:] or leaves[:1], 2, "f2", distinct=True)
            if not set(leaves_of(sc["formula"])).isdisjoint(leaves_of(sc["formula2"])):
                sc["formula2"] = LEAVES[5]
        used = leaves_of(sc["formula"]) + (leaves_of(sc["formula2"]) if form == "when" else [])
        used = sorted(set(used))
        sc["leaves"] = used
        size = dnf_size(sc["formula"]) + (dnf_size(sc["formula2"]) if form == "when" else 0)
        if size > 16:
            # the normal form has many and-groups: each execution is slow, only a few seeded orders
            sc["orders"] = [d.shuffle(used, "ord", i) for i in range(8)]
        else:
            sc["orders"] = "all" if len(used) <= 5 else [d.shuffle(used, "ord", i) for i in range(60)]
        sc["dnf_groups"] = size
        sc["leaf_style"] = d.choice(["name", "param"], "leafstyle")
        sc["with_fail"] = form != "match" and d.chance(0.45, "withfail")
        sc["rounds"] = 2 if d.chance(0.35, "rounds") else 1
        if form != "match" and sc["leaf_style"] == "name" and d.chance(0.25, "instant"):
            # (in a when statement only one case gets instant leaves: which of two cases that become true in the same step wins is not
            # something the formulas say)
            pool = used if form != "when" else (leaves_of(sc["formula"]) if d.chance(0.5, "instant-side") else leaves_of(sc["formula2"]))
            sc["instant"] = [l for l in pool if d.chance(0.4, "instant-leaf", l)]
        sc["noise_seed"] = d.randint(0, 1 << 30, "noise")
        sc["tie_seed"] = d.randint(0, 1 << 30, "tie")
        return sc

    def deliveries_for(self, sc, order, oi, rnd=0):
        """Explicit delivery list for one order: premature leaf events, Go, leaves with noise.  rnd > 0: a further round of the same
        statement in the same flow instance (after an Again event), with the leaves in another order."""
        d = Draws(sc["noise_seed"])
        dl = []
        if rnd:
            oi = (oi, "round", rnd)
            order = d.shuffle(list(order), "order", oi)
            dl.append(("again", None))
        else:
            pre = [l for l in order if d.chance(0.25, "pre", oi, l)]
            for l in pre:
                dl.append(("pre", l))
            dl.append(("go", None))
        for i, l in enumerate(order):
            if d.chance(0.3, "noise", oi, i):
                dl.append(("noise", None))
            if sc.get("with_fail") and d.chance(0.3, "fail", oi, i):
                dl.append(("fail", l))  # this leaf flow fails instead of finishing
                if d.chance(0.3, "late-leaf", oi, i):
                    dl.append(("leaf", l))  # its event arrives afterwards: the flow is gone, nothing may count
                continue
            dl.append(("leaf", l))
            if d.chance(0.25, "dup", oi, i):
                dl.append(("dup", l))
            if sc.get("with_fail") and d.chance(0.15, "late-fail", oi, i):
                dl.append(("fail", l))  # a Fail event for a leaf that already finished: irrelevant
        if not rnd and sc.get("rounds", 1) > 1:
            dl += self.deliveries_for(sc, order, oi, rnd=1)
        return dl

    def run_order(self, sc, deliveries, program, tr=None):
        td = Draws(sc["tie_seed"])
        tie = {"n": 0}

        def chooser(site, k):
            tie["n"] += 1
            return td.index(k, "tie", tie["n"])

        ctx = seams.SimContext(chooser=chooser)
        I.install_interp_seams(ctx)
        seams.reset_run_state(ctx)
        try:
            I.COUNTER.total = 0
            itp = I.Interp(program)
            t = {"now": 0.0}
            ctx.set_clock(lambda: t["now"])
            itp.start()
            marks = []
            for (kind, l) in deliveries:
                t["now"] += 0.01
                if kind == "go":
                    ev = {"type": "Go"}
                elif kind == "again":
                    ev = {"type": "Again"}
                elif kind == "noise":
                    ev = {"type": "Irrelevant"}
                else:
                    ev = leaf_event(sc, l, fail=(kind == "fail"))
                out = itp.deliver(ev)
                marks.append([o["type"] for o in out if o["type"] in ("Done", "Done2", "Else")])
            bad = I.check_quiescence(itp.state)
            self.last_cost = I.COUNTER.total * max(1, len(itp.state.flow_states))
            return marks, tie["n"], bad
        finally:
            I.uninstall_interp_seams()

    def execute(self, sc):
        out = Outcome()
        tr = Trace(sc.get("run_seed"))
        program = program_for(sc)
        form = sc["form"]
        out.probe("form_" + form)
        out.probe("leaves_by_" + sc.get("leaf_style", "name"))
        leaves = sc["leaves"]
        if sc["orders"] == "all":
            orders = [list(p) for p in itertools.permutations(leaves)]
            out.probe("exhaustive_orders")
        else:
            orders = [list(o) for o in sc["orders"]]
        f1 = sc["formula"]
        f2 = sc.get("formula2")
        mixed = _has_both(f1)
        out.evaluations = 0
        self.last_cost = 0
        oi = -1
        while oi + 1 < len(orders):
            oi += 1
            order = orders[oi]
            if oi == 1 and self.last_cost * len(orders) > 400000 and len(orders) > 8:
                # deterministic cost bound (internal events x live flows of the first order): a huge normal form
                # makes every execution slow - keep a seeded handful of orders instead of all of them
                orders = orders[:1] + Draws(sc["noise_seed"]).sample(orders[1:], 7, "fewer")
                out.probes.pop("exhaustive_orders", None)
                out.probe("orders_truncated_by_cost")
                order = orders[oi]
            dl = sc.get("explicit_deliveries") or self.deliveries_for(sc, order, oi)
            try:
                marks, nties, bad = self.run_order(sc, dl, program)
            except control.StepBudgetExceeded:
                out.inconclusive = "step budget exceeded"
                break
            except control.SimControl:
                raise
            except Exception as e:
                out.violate("raised", "%s:%s" % (form, type(e).__name__), "formula %s, deliveries %r: %s: %s" % (G.render_formula(f1), dl, type(e).__name__, str(e)[:160]), pin={"orders": [order]})
                continue
            out.evaluations += 1
            if nties:
                out.probe("tie_break_decided", nties)
            if any(k == "pre" for k, _ in dl):
                out.probe("premature_delivery")
            if any(k == "dup" for k, _ in dl):
                out.probe("duplicate_delivery")
            # oracle: a leaf is satisfied by the first terminal event of its flow being the finishing one; a failed leaf can never
            # be satisfied.  A (monotone) formula is dead once it is false even with every undecided leaf counted as satisfied.
            got, failed = set(), set()
            main_alive = True
            active = False
            expected = []
            done = False
            everyone = set(leaves)
            for (kind, l) in dl:
                exp = []
                instant = set(sc.get("instant") or [])
                if kind == "go":
                    active = True
                    if instant:
                        out.probe("instantly_finishing_leaf")
                        got |= instant
                        if evaluate(f1, got):
                            exp, done = ["Done"], True
                        elif f2 is not None and evaluate(f2, got):
                            exp, done = ["Done2"], True
                elif kind == "again":
                    # the flow went on to `match Again()` if the statement completed (for await: unless it failed); the statement
                    # then starts afresh: nothing that arrived before counts
                    if done and main_alive:
                        got, failed, done = set(), set(), False
                        out.probe("statement_executed_again_in_same_instance")
                        if instant:
                            got |= instant
                            if evaluate(f1, got):
                                exp, done = ["Done"], True
                            elif f2 is not None and evaluate(f2, got):
                                exp, done = ["Done2"], True
                elif kind in ("leaf", "dup", "pre", "fail") and active and not done:
                    if l not in got and l not in failed:
                        (failed if kind == "fail" else got).add(l)
                    alive1 = evaluate(f1, everyone - failed)
                    alive2 = f2 is not None and evaluate(f2, everyone - failed)
                    if evaluate(f1, got):
                        exp = ["Done"]
                        done = True
                    elif f2 is not None and evaluate(f2, got):
                        exp = ["Done2"]
                        done = True
                    elif not alive1 and not alive2:
                        # await: the awaiting flow fails (nothing is emitted any more); when: the else branch runs
                        exp = ["Else"] if form == "when" else []
                        done = True
                        main_alive = form == "when"
                        out.probe("all_alternatives_failed")
                    if kind == "fail":
                        out.probe("leaf_flow_failed")
                expected.append(exp)
            tr.log("order", order, marks == expected)
            if marks != expected:
                i = next(k for k, (a, b) in enumerate(zip(marks, expected)) if a != b)
                kind = "early" if marks[i] and not expected[i] else ("late-or-never" if expected[i] and not marks[i] else "wrong-case")
                if kind == "late-or-never" and dl[i][0] in ("leaf", "dup", "go", "again") and sc.get("instant"):
                    # F34's shape: the formula became true through leaf flows that finished in the step that started them (alone, or
                    # together with a later event)
                    won = f1 if expected[i] == ["Done"] else f2
                    if won is not None and set(sc["instant"]) & set(leaves_of(won)):
                        kind += ":needs-instantly-finished-leaf"
                out.violate("formula-mismatch", "%s:%s" % (form, kind),
                            "%s %s%s with deliveries %s: at delivery %d (%s) the interpreter emitted %r, the formula demands %r"
                            % (form, G.render_formula(f1), (" / " + G.render_formula(f2)) if f2 is not None else "", [("%s:%s" % (k, l)) if l else k for k, l in dl], i, dl[i], marks[i], expected[i]),
                            pin={"orders": [order], "explicit_deliveries": dl})
                break
            if mixed or f2 is not None:
                out.nontrivial_sigs.append((form, sc.get("leaf_style"), G.render_formula(f1), tuple(order)))
        out.digest = tr.digest()
        out.interleaving = (form, G.render_formula(f1))
        out.sample = {"form": form, "statement": program.split("\n")[2].strip(), "leaves": leaves, "orders_executed": len(orders), "example_deliveries": [("%s:%s" % (k, l)) if l else k for k, l in self.deliveries_for(sc, orders[0], 0)]}
        return out

    def shrink(self, sc):
        dl = sc.get("explicit_deliveries")
        if dl:
            for i, (k, l) in enumerate(dl):
                if k in ("noise", "dup", "pre", "fail"):
                    c = copy.deepcopy(sc)
                    del c["explicit_deliveries"][i]
                    yield c

    def same_class(self, a, b):
        return a.oracle == b.oracle and a.sig == b.sig


def _has_both(f):
    ops = set()

    def walk(x):
        if isinstance(x, dict):
            ops.add(x["op"])
            for a in x["args"]:
                walk(a)
    walk(f)
    return len(ops) == 2


PROP = C07()
