"""C03 - failing actions are contained and rails fail closed.

Fault enumeration: run the scenario fault-free, count its N action invocations, then one run per
call index with an exception injected there (exhaustive), and pairs (exhaustive for N <= 6, seeded
sample otherwise)."""
import copy
import itertools

from ..gen import convo
from ..kernel.draws import Draws
from ..kernel.trace import Trace
from ..worlds import rails as R
from ..worlds import rails_run as RR
from .base import Outcome
from .c01 import RailsProp, cfgclass

EXC_TYPES = ["RuntimeError", "KeyError", "TimeoutError", "ValueError", "UnprintableError"]  # UnprintableError: an exception whose own str()/repr() raises
V1_MODES = [("rails_only", 3), ("dialog", 5), ("single_call", 2), ("passthrough", 1)]


class C03(RailsProp):
    id = "C03"
    level = "fault_enumeration"
    technique = "deterministic simulation with fault injection: an exception injected at every action call index (singles exhaustively, pairs exhaustively for N<=6 else sampled) of seeded multi-turn conversations; oracle over replies and the seam history"
    rule = ("one scenario = one generated configuration + 2-4 turn conversation; it is executed once fault-free (N action calls: input-rail / output-rail / dialog / shipped self-check proxies) and then once per "
            "single fault position and per enumerated/sampled pair, with exception types RuntimeError/KeyError/asyncio.TimeoutError/ValueError. evaluations = executions; "
            "non-trivial = faulted executions in which the fault really fired; distinct = distinct (config class, call-site kind(s), turn position(s), exception type)")
    expected_probes = ["fault_in_retrieval_rail", "fault_in_input_rail", "fault_in_output_rail", "fault_in_dialog_action", "fault_then_later_turn", "pair_faults"]
    exhaustive_parts = ["every single action call index of every sampled scenario", "every pair of call indexes when the fault-free run has <= 6 action calls"]
    quick_runs = 64
    thorough_runs = 3000
    chunk = 2
    run_timeout_s = 240.0
    ddmin_paths = [("convs", "*", "turns"), ("in_rails",), ("out_rails",), ("faults",)]

    def generate(self, d, index, tier):
        sc = convo.gen_spec(d, max_turns=4, modes=V1_MODES)
        # at least two turns so that "the next turn is processed with all rails active" is exercised
        while len(sc["convs"][0]["turns"]) < 2:
            t = len(sc["convs"][0]["turns"])
            tk = convo.tok(0, t)
            sc["convs"][0]["turns"].append({"tok": tk, "text": "topic %d SECRET0_%d %s" % (t % 3, t, tk)})
            sc["intents"][tk] = "topic %d" % (t % 3)
        if sc["colang"] == "1.0" and sc["mode"] in ("dialog", "single_call", "multistep") and d.chance(0.4, "retrails"):
            # a retrieval rail (runs inside the flow that generates the bot message): one more action a turn depends on
            sc["ret_rails"] = 1
        sc["faults"] = "enumerate"
        sc["pair_seed"] = d.randint(0, 1 << 30, "pair_seed")
        sc["pair_budget"] = 10 if tier == "quick" else 40
        return sc

    # one execution with an explicit fault list [[call_index, exc_type], ...]
    def run_faulted(self, sc, faults, tr, out):
        fault_at = {int(n): t for n, t in faults}
        pin = {"faults": [[list(f) for f in faults]]} if faults else None
        n_viol0 = len(out.violations)
        world, records = RR.run_conversations(sc, fault_at=fault_at, tr=tr)
        cc = cfgclass(sc)
        fired = world.faults_fired
        for _f in fired:
            out.fault("action_exception")
        if not faults:
            return world, records, fired
        sites = []
        verdict_sites = []
        for (n, kind, name) in fired:
            site = "dialog" if kind == "dialog" else "retrieval-rail" if kind == "retrieval" else ("input-rail" if name.startswith("in") else "output-rail")
            sites.append(site)
            # does the failing action record a rail verdict (`$allowed = execute ...`)?  A failure of such an action leaves its own
            # (empty) result behind; any other failing action leaves the verdicts recorded before it in the hidden turn (F12a)
            rl = None
            if kind != "dialog" and kind != "retrieval" and name[:2] == "in" and name[2:].isdigit() and int(name[2:]) < len(sc["in_rails"]):
                rl = sc["in_rails"][int(name[2:])]
            elif kind != "dialog" and kind != "retrieval" and name[:3] == "out" and name[3:].isdigit() and int(name[3:]) < len(sc["out_rails"]):
                rl = sc["out_rails"][int(name[3:])]
            verdict_sites.append(bool(rl) and rl["kind"] in ("check", "shipped"))
            out.probe("fault_in_" + site.replace("-", "_") + ("_action" if site == "dialog" else ""))
        if len(fired) >= 2:
            out.probe("pair_faults")
        sitesig = "+".join(sorted(set(sites))) or "not-fired"
        faulted_turns = set()
        for rec in records:
            ev = RR.normalise_events(sc, rec.events)
            f_here = [e for e in ev if e.get("faulted")]
            # (a) generate returns normally
            if rec.status != "ok":
                out.violate("generate-raised", "%s:%s:%s" % (cc, sitesig if f_here else "later-turn", _exc_slug(rec.exc)),
                            "turn %d %s: generate raised %r (faults injected at action calls %r)" % (rec.t, rec.tok, rec.exc, faults))
                continue
            reply_text = rec.reply if isinstance(rec.reply, str) else ""
            if rec.reply_role not in ("assistant", "exception") or (rec.reply_role == "assistant" and not isinstance(rec.reply, str)):
                out.violate("malformed-reply", "%s:%s" % (cc, sitesig), "turn %d: reply %r" % (rec.t, rec.raw))
            if f_here:
                faulted_turns.add(rec.t)
                # (b) fail closed
                for fe in f_here:
                    if fe["kind"] == "rail" and fe["rail"].startswith("in"):
                        later_gen = [g for g in ev if g["kind"] == "gen" and g["idx"] > fe["idx"]]
                        if later_gen:
                            g0 = later_gen[0]
                            what = "guarded-prompt" if rec.tok in g0["prompt"] else "stale-prompt"
                            out.violate("generation-after-failed-input-rail", "%s:%s:%s" % (cc, g0["task"], what),
                                        "turn %d %s: input rail %s raised, yet %s was prompted afterwards (%s); faults %r"
                                        % (rec.t, rec.tok, fe["rail"], g0["task"], "with the unapproved user text" if what == "guarded-prompt" else "for an earlier turn: the prompt does not contain this turn's text", faults))
                        m = RR.LLM_TEXT_RE.search(reply_text)
                        if m:
                            what = "guarded-text" if rec.tok in m.group(0) else "stale-turn-text"
                            out.violate("unchecked-text-after-failed-input-rail", "%s:%s" % (cc, what),
                                        "turn %d %s: input rail %s raised but the reply carries LLM text: %r; faults %r" % (rec.t, rec.tok, fe["rail"], rec.reply, faults))
                    if fe["kind"] == "retrieval":
                        # what the failed retrieval rail was guarding (the retrieved context for this turn's answer) is not approved:
                        # no answer is generated from it
                        later_gen = [g for g in ev if g["kind"] == "gen" and g["idx"] > fe["idx"] and g["task"] in ("generate_bot_message", "generate_intent_steps_message")]
                        m = RR.LLM_TEXT_RE.search(reply_text)
                        if later_gen or (m and rec.tok in m.group(0)):
                            out.violate("generation-after-failed-retrieval-rail", "%s:%s" % (cc, later_gen[0]["task"] if later_gen else "reply"),
                                        "turn %d %s: retrieval rail %s raised, yet %s; reply %r; faults %r" % (rec.t, rec.tok, fe["name"], ("%s was prompted afterwards" % later_gen[0]["task"]) if later_gen else "the reply carries LLM text of this turn", rec.reply, faults))
                    if fe["kind"] == "rail" and fe["rail"].startswith("out"):
                        guarded = fe.get("text") or ""
                        bad = None
                        # any LLM text of this turn in the reply must have been approved by every output rail
                        # AFTER the failure (a later, complete and successful pass over the same text counts)
                        for m in RR.LLM_TEXT_RE.finditer(reply_text):
                            passed = set(e["rail"] for e in ev if e["kind"] == "rail" and e["rail"].startswith("out") and e["text"] == m.group(0)
                                         and not e.get("faulted") and e.get("verdict") in ("allow",) and e["idx"] > fe["idx"])
                            if len(passed) < len(sc["out_rails"]):
                                bad = "output rail %s raised while checking %r; the reply %r contains LLM text that only %d of %d output rails approved afterwards" % (
                                    fe["rail"], guarded, rec.reply, len(passed), len(sc["out_rails"]))
                                break
                        if bad:
                            out.violate("unchecked-text-after-failed-output-rail", "%s" % cc, "turn %d %s: %s; faults %r" % (rec.t, rec.tok, bad, faults))
            else:
                # (c) the failure does not poison the conversation: later turns obey C01 / C02
                if faulted_turns:
                    out.probe("fault_then_later_turn")
                sub = Outcome()
                RR.check_c01(sc, rec, sub, cc)
                RR.check_c02(sc, rec, sub, cc, [])
                for v in sub.violations:
                    when = "after-fault" if faulted_turns else "before-fault"
                    pk = _poison_kind(sc, rec, ev, v)
                    if pk == "spurious-refusal" and verdict_sites and all(verdict_sites):
                        pk = "spurious-refusal-after-verdict-action-failure"
                    out.violate("rails-inactive-%s" % when, "%s:%s:%s" % (cc, sitesig, pk),
                                "faults at action calls %r; %s" % (faults, v.narrative))
        for v in out.violations[n_viol0:]:
            v.pin = pin
        return world, records, fired

    def execute(self, sc):
        out = Outcome()
        tr = Trace(sc.get("run_seed"))
        cc = cfgclass(sc)
        if sc["faults"] != "enumerate":
            # replay / minimised form: explicit fault lists
            out.evaluations = 0
            for faults in sc["faults"]:
                tr.log("faults", faults)
                self.run_faulted(sc, faults, tr, out)
                out.evaluations += 1
            out.digest = tr.digest()
            return out
        world, records, _ = self.run_faulted(sc, [], tr, out)
        n = world.action_calls
        out.evaluations = 1
        if any(r.status != "ok" for r in records):
            out.inconclusive = "fault-free run raised"
            out.digest = tr.digest()
            return out
        d = Draws(sc["pair_seed"])
        singles = [[[i, d.choice(EXC_TYPES, "exc", i)]] for i in range(1, n + 1)]
        all_pairs = list(itertools.combinations(range(1, n + 1), 2))
        if n <= 6:
            pairs = all_pairs
        else:
            pairs = d.sample(all_pairs, min(len(all_pairs), sc.get("pair_budget", 10)), "pairs")
        pairs = [[[i, d.choice(EXC_TYPES, "exc2", i, j)], [j, d.choice(EXC_TYPES, "exc3", i, j)]] for (i, j) in pairs]
        for faults in singles + pairs:
            tr.log("faults", faults)
            w2, recs2, fired = self.run_faulted(sc, faults, tr, out)
            out.evaluations += 1
            for (nn, kind, name) in fired:
                turn = next((r.t for r in recs2 if any(e.get("n") == nn and e["kind"] in ("rail", "dialog", "shipped", "retrieval") for e in r.events)), -1)
                out.nontrivial_sigs.append((cc, kind, name[:3], turn, tuple(t for _, t in faults), len(faults)))
        out.sim_seconds = getattr(world, "sim_seconds", 0.0)
        out.digest = tr.digest()
        out.interleaving = (cc, n)
        out.sample = {"config": {k: sc[k] for k in ("colang", "mode", "in_rails", "out_rails", "exceptions")}, "action_calls_fault_free": n, "singles": len(singles), "pairs": len(pairs),
                      "example_fault": singles[0] if singles else None, "turns": [r.brief() for r in records][:4]}
        return out

    def shrink(self, sc):
        if sc["faults"] == "enumerate":
            # pin the enumeration to one explicit fault list that still fails
            o = Outcome()
            world, _records, _ = self.run_faulted(sc, [], Trace(0), o)
            n = world.action_calls
            for i in range(1, n + 1):
                c = copy.deepcopy(sc)
                c["faults"] = [[[i, "RuntimeError"]]]
                yield c
            for (i, j) in itertools.combinations(range(1, n + 1), 2):
                c = copy.deepcopy(sc)
                c["faults"] = [[[i, "RuntimeError"], [j, "RuntimeError"]]]
                yield c
            return
        for c in super().shrink(sc):
            yield c
        # pair -> single
        for k, fl in enumerate(sc["faults"]):
            if len(fl) > 1:
                for drop in range(len(fl)):
                    c = copy.deepcopy(sc)
                    c["faults"][k] = [f for q, f in enumerate(fl) if q != drop]
                    yield c
            for q, f in enumerate(fl):
                if f[0] > 1:
                    c = copy.deepcopy(sc)
                    c["faults"][k][q] = [f[0] - 1, f[1]]
                    yield c

    def same_class(self, a, b):
        # the configuration class may shrink; keep oracle + colang version + failure kind
        return a.oracle == b.oracle and a.sig.split(":")[-1] == b.sig.split(":")[-1] and a.sig.split(":")[0] == b.sig.split(":")[0]


def _exc_slug(e):
    """Exception class plus, for bare Exception, a slug of its message (e.g. Exception-too-many-events)."""
    name = type(e).__name__
    if name == "Exception":
        import re as _re

        words = _re.findall(r"[a-z]+", str(e).lower())[:3]
        return "Exception-" + "-".join(words)
    return name


def _poison_kind(sc, rec, ev, v):
    """Classify how a later turn went wrong.  'spurious-refusal': a rail that was invoked and allowed
    the text nevertheless produced its refusal and the pipeline stopped there (fail closed)."""
    if v.oracle in ("input-rails-sequence", "output-rails-sequence") and not RR.LLM_TEXT_RE.search(rec.reply if isinstance(rec.reply, str) else ""):
        side = "in" if v.oracle.startswith("input") else "out"
        inv = [e for e in ev if e["kind"] == "rail" and e["rail"].startswith(side)]
        if inv and inv[-1].get("verdict") in ("allow", "rewrite") and RR.reply_is_block_of(sc, rec, inv[-1]["rail"]):
            return "spurious-refusal"
    return v.oracle


PROP = C03()
