"""C19 - embedding search returns each query's own embedding under caching and batching.

World EMBED: one real BasicEmbeddingsIndex (real Annoy, real cache.py) with SimEmbeddingModel;
N client tasks calling search / _batch_get_embeddings / _get_embeddings at seeded virtual times.
"""
import asyncio
import os
import shutil
import tempfile

from ..kernel import control, seams
from ..kernel.draws import Draws
from ..kernel.loop import run_sim
from ..kernel.trace import Trace
from ..peers import embed as embed_peer
from .base import Outcome, Prop

TEXT_POOL = ["", "a", "b", "hello", "hello ", "hi there", "a:b", "été", "x" * 40, "q1", "q2", "q3", "q4", "q5", "q6", "zz", "0", "None"]
HOLDS = [0.0, 0.001, 0.01]
BATCH_SIZES = [1, 2, 3, 10]
ARRIVAL_GRID = [0.0, 0.0, 0.0005, 0.001, 0.001, 0.0015, 0.002, 0.005, 0.009, 0.01, 0.01, 0.011, 0.02, 0.05]
MODEL_LAT = [0.0, 0.0005, 0.001, 0.002, 0.009, 0.01, 0.011, 0.02, 0.1]
CACHES = [
    None,
    {"key_generator": "md5", "store": "filesystem"},
    {"key_generator": "hash", "store": "in_memory"},
    {"key_generator": "md5", "store": "in_memory"},
    {"key_generator": "hash", "store": "sim_shared"},
    {"key_generator": "md5", "store": "sim_shared"},
    {"key_generator": "sim_hex", "store": "sim_shared"},
    {"key_generator": "sim_hex", "store": "filesystem"},
]

_registered = False
_SHARED = {}


def _register_cache_plugins():
    """'any key generator/store': two extra plug-ins that honour the interface contract
    (injective key generator; a store that really persists between calls)."""
    global _registered
    if _registered:
        return
    from nemoguardrails.embeddings.cache import CacheStore, KeyGenerator

    class SimHexKeyGenerator(KeyGenerator):
        name = "sim_hex"

        def generate_key(self, text):
            return "k" + text.encode("utf-8").hex()

    class SimSharedStore(CacheStore):
        name = "sim_shared"

        def __init__(self, **kw):
            pass

        def get(self, key):
            return _SHARED.get(key)

        def set(self, key, value):
            _SHARED[key] = value

        def clear(self):
            _SHARED.clear()

    _registered = (SimHexKeyGenerator, SimSharedStore)  # keep alive: from_name walks __subclasses__()


WORK_BUDGET = 2_000_000


class C19(Prop):
    id = "C19"
    level = "exploration"
    world = "EMBED"
    technique = "deterministic simulation (virtual-time asyncio loop): seeded arrival times, model latencies and timer ties over concurrent embedding requests; oracle = model's direct output"
    rule = ("one run = one seeded schedule of N concurrent clients (search / _batch_get_embeddings / _get_embeddings) with arrival times on a grid around the "
            "batch hold timer, model latency per call, equal-deadline timer order, knobs max_batch_size/max_batch_hold/cache. non-trivial = runs in which >= 2 requests "
            "overlapped in time inside the index (a batch with >= 2 members, a batch forming while the previous one computes, or concurrent cached calls); "
            "distinct = distinct hash of (knobs, order of enter/exit events across clients and model calls)")
    components = {
        "real": ["nemoguardrails.embeddings.basic.BasicEmbeddingsIndex", "nemoguardrails.embeddings.cache (decorator, EmbeddingsCache, md5/hash key generators, in_memory/filesystem stores)", "annoy.AnnoyIndex", "asyncio primitives (Event, wait, tasks)"],
        "stub": ["embedding model (SimEmbeddingModel: md5-derived vectors, scheduler-chosen latency)", "event loop clock/selector (SimLoop virtual time)", "sim_shared cache store and sim_hex key generator (extra plug-ins obeying the interface)"],
    }
    assumptions = [
        "one embedding model per cache store; key generators are injective up to hash collisions of the builtin hash()",
        "cancellation of clients and model exceptions are outside the property's quantifier (report-only probes)",
    ]
    ddmin_paths = [("clients",)]
    expected_probes = ["client_gave_up", "sibling_index_with_other_model", "batch_of_2plus", "batch_forms_while_previous_computes", "batch_full_before_hold", "cache_hit", "queue_full_wait"]
    quick_runs = 24000
    thorough_runs = 1200000
    chunk = 250
    run_timeout_s = 20.0

    def setup_process(self):
        embed_peer.ensure_registered()
        _register_cache_plugins()

    def generate(self, d, index, tier):
        n_clients = d.choice([1, 2, 2, 3, 4, 5, 6, 8, 12, 20, 40], "nclients")
        batching = d.chance(0.8, "batching")
        pool_n = d.randint(1, len(TEXT_POOL), "pool")
        pool = TEXT_POOL[:pool_n] if d.chance(0.5, "poolhead") else d.sample(TEXT_POOL, pool_n, "poolsample")
        clients = []
        for c in range(n_clients):
            kind = d.weighted([("search", 4), ("batch", 3), ("get", 3)], "kind", c)
            if not batching and kind == "batch":
                kind = "get"
            if kind == "get":
                k = d.randint(0, 5, "ntexts", c)
                texts = [d.choice(pool, "text", c, j) for j in range(k)]
            else:
                texts = [d.choice(pool, "text", c, 0)]
            cl = {"at": d.choice(ARRIVAL_GRID, "at", c), "kind": kind, "texts": texts}
            if batching and kind in ("search", "batch") and n_clients >= 2 and d.chance(0.08, "gives-up", c):
                # a caller that gives up (timeout / disconnect) shortly after asking: its request is cancelled wherever it is - the
                # others still get their own vectors
                cl["give_up_after"] = d.choice([0.0, 0.001, 0.005, 0.02], "give-up", c)
            clients.append(cl)
        return {
            "knobs": {
                "use_batching": batching,
                "max_batch_size": d.choice(BATCH_SIZES, "mbs"),
                "max_batch_hold": d.choice(HOLDS, "hold"),
                "cache": d.choice(CACHES, "cache"),
            },
            "clients": clients,
            "model_lat": [d.choice(MODEL_LAT, "mlat", i) for i in range(12)],
            "tie_seed": d.randint(0, 1 << 30, "tie"),
            "items": ["item %d" % i for i in range(d.randint(1, 6, "nitems"))],
            "prewarm": d.chance(0.3, "prewarm"),
            # a second index in the same process with ANOTHER embedding model and an equal cache configuration (what an application
            # with different models for intents and for the knowledge base has): each index gets its own model's vectors
            "sibling": d.chance(0.3, "sibling"),
        }

    def execute(self, sc):
        from nemoguardrails.embeddings.basic import BasicEmbeddingsIndex
        from nemoguardrails.embeddings.index import IndexItem

        out = Outcome()
        tr = Trace(sc.get("run_seed"))
        knobs = sc["knobs"]
        _SHARED.clear()
        tmpdir = None
        cache_cfg = None
        if knobs["cache"]:
            cache_cfg = {"enabled": True, "key_generator": knobs["cache"]["key_generator"], "store": knobs["cache"]["store"], "store_config": {}}
            if knobs["cache"]["store"] == "filesystem":
                tmpdir = tempfile.mkdtemp(prefix="c19-", dir="/dev/shm" if os.path.isdir("/dev/shm") else None)
                cache_cfg["store_config"] = {"cache_dir": tmpdir}
        tied = Draws(sc["tie_seed"])
        lat = sc["model_lat"]
        in_flight = {"n": 0, "batch_computing": 0}
        order = []

        def on_call(n, texts, phase):
            order.append(("m", phase, len(texts)))
            tr.log("model", phase, n, texts)
            if phase == "enter":
                if len(texts) >= 2 and knobs["use_batching"]:
                    out.probe("batch_of_2plus")
                in_flight["batch_computing"] += 1
            else:
                in_flight["batch_computing"] -= 1

        world = embed_peer.EmbedWorld(latency_fn=lambda n, texts: lat[(n - 1) % len(lat)] if lat else 0.0, on_call=on_call)
        results = {}
        overlap = {"max": 0}

        async def main(loop):
            idx = BasicEmbeddingsIndex(
                embedding_model="sim", embedding_engine="SimEmbed", cache_config=cache_cfg,
                use_batching=knobs["use_batching"], max_batch_size=knobs["max_batch_size"], max_batch_hold=knobs["max_batch_hold"],
            )
            # build the index outside the measured phase (zero latency, no batching involved)
            embed_peer.set_world(None)
            await idx.add_items([IndexItem(text=t, meta={"i": i}) for i, t in enumerate(sc["items"])])
            await idx.build()
            sib = None
            sib_texts = [c["texts"][0] for c in sc["clients"] if c["texts"]][:3]
            if sc.get("sibling") and sib_texts and (cache_cfg is None or knobs["cache"]["store"] == "in_memory"):
                # (filesystem / sim_shared stores are one-model-per-store by assumption; in_memory stores belong to one index)
                sib = BasicEmbeddingsIndex(embedding_model="sim-b", embedding_engine="SimEmbed", cache_config=cache_cfg, use_batching=False)
                results["sibling-before"] = await sib._get_embeddings(list(sib_texts))
                out.probe("sibling_index_with_other_model")
            if sc.get("prewarm") and cache_cfg:
                await idx._get_embeddings([c["texts"][0] for c in sc["clients"] if c["texts"]][:2])
            embed_peer.set_world(world)
            # instrument the batching entry to observe queue-full waits and batch formation
            # (probes on internals are optional: a refactoring of the batching bookkeeping must not break the check)
            orig_run_batch = getattr(idx, "_run_batch", None)

            async def run_batch_probe():
                if in_flight["batch_computing"] > 0:
                    out.probe("batch_forms_while_previous_computes")
                await orig_run_batch()

            if orig_run_batch is not None:
                idx._run_batch = run_batch_probe

            def queue_full():
                q = getattr(idx, "_req_queue", None)
                return q is not None and len(q) >= idx.max_batch_size
            t0 = loop.time()

            async def client(ci, c):
                if c["at"] > 0:
                    await asyncio.sleep(c["at"])
                in_flight["n"] += 1
                overlap["max"] = max(overlap["max"], in_flight["n"])
                order.append(("c", "enter", ci))
                tr.log("client", "enter", ci, round(loop.time() - t0, 6), c["kind"], c["texts"])
                try:
                    if c.get("give_up_after") is not None:
                        out.probe("client_gave_up")
                        coro = idx.search(c["texts"][0], max_results=3) if c["kind"] == "search" else idx._batch_get_embeddings(c["texts"][0])
                        try:
                            await asyncio.wait_for(coro, timeout=c["give_up_after"])
                        except asyncio.TimeoutError:
                            pass
                        r = None
                    elif c["kind"] == "search":
                        if knobs["use_batching"] and queue_full():
                            out.probe("queue_full_wait")
                        r = await idx.search(c["texts"][0], max_results=3)
                        r = [it.text for it in r]
                    elif c["kind"] == "batch":
                        if queue_full():
                            out.probe("queue_full_wait")
                        r = await idx._batch_get_embeddings(c["texts"][0])
                    else:
                        r = await idx._get_embeddings(list(c["texts"]))
                    results[ci] = ("gave-up", None) if c.get("give_up_after") is not None else ("ok", r)
                except Exception as e:  # the property promises correct vectors, an exception is a wrong answer
                    results[ci] = ("exc", "%s: %s" % (type(e).__name__, e))
                in_flight["n"] -= 1
                order.append(("c", "exit", ci))
                tr.log("client", "exit", ci, round(loop.time() - t0, 6))

            tasks = [asyncio.ensure_future(client(ci, c)) for ci, c in enumerate(sc["clients"])]
            if tasks:
                await asyncio.gather(*tasks)
            if sib is not None:
                results["sibling-after"] = await sib._get_embeddings(list(sib_texts))
                results["sibling-texts"] = sib_texts
            # full-before-hold probe: a batch started before its hold time elapsed
            return idx, loop.time() - t0

        def jitter(when, seq):
            return (tied.u64("tj", seq) % 97) * 1e-12

        idx = None
        try:
            try:
                # a coroutine that spins without ever yielding (e.g. waiting in a loop on an asyncio.Event that is already set)
                # never returns to the loop: no iteration count can see it.  The deterministic work bound does (measured:
                # a run needs at most ~25 000 function entries + jumps; the bound is 80 x that).
                with control.WorkBudget(WORK_BUDGET) as wb:
                    (idx, simt), loop = run_sim(main, start_time=1000.0, tie_jitter=jitter, max_iterations=400000)
                out.sim_seconds = simt
                self._max_work = max(getattr(self, "_max_work", 0), wb.n)
                if wb.n > WORK_BUDGET // 4:
                    out.probe("work_over_quarter_budget")
            except control.SimDeadlock as e:
                done = sorted(results)
                parked = [ci for ci in range(len(sc["clients"])) if ci not in results]
                out.violate("incomplete", "deadlock:batching=%s" % knobs["use_batching"],
                            "clients %r never completed (nothing ready, nothing scheduled); parked tasks: %s" % (parked, "; ".join(e.parked)[:600]))
                tr.log("deadlock", parked)
            except control.StepBudgetExceeded:
                parked = [ci for ci in range(len(sc["clients"])) if ci not in results]
                out.violate("incomplete", "livelock:batching=%s" % knobs["use_batching"], "clients %r never completed: the run exceeded 400000 loop iterations or %d function entries + jumps (a task spinning without yielding to the loop)" % (parked, WORK_BUDGET))
        finally:
            embed_peer.set_world(None)
            if tmpdir:
                shutil.rmtree(tmpdir, ignore_errors=True)

        # ---- oracle: each text -> exactly the model's vector, order preserved ------------------
        vec = embed_peer.vec
        for ci, c in enumerate(sc["clients"]):
            if ci not in results:
                continue
            st, r = results[ci]
            tr.log("result", ci, st, r)
            if st == "gave-up":
                continue  # not judged: it did not wait for its answer
            if st == "exc":
                out.violate("wrong-vector", "exception:%s:%s" % (c["kind"], r.split(":")[0]), "client %d (%s %r) raised %s" % (ci, c["kind"], c["texts"], r))
                continue
            if c["kind"] == "get":
                want = [vec(t) for t in c["texts"]]
                if r is None or [list(x) if x is not None else None for x in r] != want:
                    out.violate("wrong-vector", "get:cache=%s" % (knobs["cache"] or {}).get("store"),
                                "client %d _get_embeddings(%r) returned vectors %r; the model gives %r" % (ci, c["texts"], _brief(r), _brief(want)))
            elif c["kind"] == "batch":
                want = vec(c["texts"][0])
                if r is None or list(r) != want:
                    out.violate("wrong-vector", "batch", "client %d _batch_get_embeddings(%r) returned %r; the model gives %r" % (ci, c["texts"][0], _brief([r]), _brief([want])))
            else:
                if idx is not None:
                    nns = idx._index.get_nns_by_vector(vec(c["texts"][0]), 3, include_distances=True)
                    want = [idx._items[i].text for i in nns[0]]
                    if r != want:
                        out.violate("wrong-vector", "search", "client %d search(%r) returned %r; searching with the model's own vector gives %r" % (ci, c["texts"][0], r, want))
        for when in ("sibling-before", "sibling-after"):
            if when in results:
                st_texts = results.get("sibling-texts") or [c["texts"][0] for c in sc["clients"] if c["texts"]][:3]
                want = [vec(t, "sim-b") for t in st_texts]
                got = [list(x) if x is not None else None for x in results[when]]
                if got != want:
                    out.violate("wrong-vector", "sibling-index:%s:cache=%s" % (when, (knobs["cache"] or {}).get("store")),
                                "the index with the other embedding model got %r for %r; its own model gives %r" % (_brief(got), st_texts, _brief(want)))
        if idx is not None and getattr(idx, "_req_results", None):
            # a leaked result is a result delivered to nobody: some request did not get its own vector
            out.probe("leaked_results")
        if world.texts_seen and knobs["cache"]:
            seen = [t for call in world.texts_seen for t in call]
            asked = [t for c in sc["clients"] for t in c["texts"]]
            if len(seen) < len(asked):
                out.probe("cache_hit")
        if knobs["use_batching"]:
            for call in world.texts_seen:
                if len(call) >= knobs["max_batch_size"] and knobs["max_batch_hold"] > 0:
                    out.probe("batch_full_before_hold")
        out.digest = tr.digest()
        out.interleaving = repr((sorted(knobs.items(), key=str), order))
        if overlap["max"] >= 2:
            out.nontrivial_sigs.append(out.interleaving)
        out.sample = {"knobs": knobs, "clients": sc["clients"][:6], "n_clients": len(sc["clients"]), "model_calls": world.texts_seen[:6], "order_head": order[:12]}
        return out

    def shrink(self, sc):
        import copy

        # simplify knobs and latencies
        if any(sc["model_lat"]):
            c = copy.deepcopy(sc)
            c["model_lat"] = [0.0]
            yield c
        for i, cl in enumerate(sc["clients"]):
            if cl["at"] != 0.0:
                c = copy.deepcopy(sc)
                c["clients"][i]["at"] = 0.0
                yield c
            if len(cl["texts"]) > 1:
                for j in range(len(cl["texts"])):
                    c = copy.deepcopy(sc)
                    del c["clients"][i]["texts"][j]
                    yield c
        if sc.get("prewarm"):
            c = copy.deepcopy(sc)
            c["prewarm"] = False
            yield c


def _brief(vs):
    try:
        return [None if v is None else [round(x, 3) for x in v[:2]] for v in vs]
    except Exception:
        return repr(vs)[:200]


PROP = C19()
