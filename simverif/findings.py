"""KNOWN_FINDINGS.txt: committed, read-only for checks.

Grammar (one entry per line, '#' comments):
  known: property=<id> sig=<oracle>:<signature-glob> -- <what fails, one sentence>
  fixed: property=<id> <commit> -- <what failed>
A violation is covered only if property matches and "<oracle>:<signature>" matches the glob.
A fixed entry suppresses nothing.
"""
import fnmatch
import os
import re

PATH = os.path.join(os.path.dirname(os.path.dirname(os.path.abspath(__file__))), "KNOWN_FINDINGS.txt")

_known_re = re.compile(r"^known:\s+property=(\S+)\s+sig=(\S+)\s+--\s+(.*)$")
_fixed_re = re.compile(r"^fixed:\s+property=(\S+)\s+(\S+)\s+--\s+(.*)$")


class Finding:
    def __init__(self, prop, glob, text):
        self.prop, self.glob, self.text = prop, glob, text

    def covers(self, prop, oracle, sig):
        return prop == self.prop and fnmatch.fnmatchcase("%s:%s" % (oracle, sig), self.glob)


def load(path=PATH):
    known, fixed = [], []
    if not os.path.exists(path):
        return known, fixed
    with open(path) as f:
        for line in f:
            line = line.strip()
            if not line or line.startswith("#"):
                continue
            m = _known_re.match(line)
            if m:
                known.append(Finding(m.group(1), m.group(2), m.group(3)))
                continue
            m = _fixed_re.match(line)
            if m:
                fixed.append((m.group(1), m.group(2), m.group(3)))
                continue
            raise ValueError("KNOWN_FINDINGS.txt: cannot parse line: %r" % line)
    return known, fixed


def match(known, prop, oracle, sig):
    for k in known:
        if k.covers(prop, oracle, sig):
            return k
    return None
