"""Determinism proof: ./check selftest [--tiny] [--n N] [--props C19,C18] [--hashseeds 0,1,12345]

1. same seed twice in one process, at different positions of a batch;
2. same seeds in a fresh interpreter;
3. same seeds under several PYTHONHASHSEED values;
digests (SHA-256 over the normalised event log) must agree everywhere.
Also probes every seam.  Exit 0 ok, 2 mismatch (harness error, never a verdict).
"""
import argparse
import importlib
import json
import os
import subprocess
import sys

from .kernel import seams
from .kernel.draws import Draws, derive_seed


def _available():
    from .cli import CLAIMED

    out = []
    for pid in CLAIMED:
        try:
            out.append(importlib.import_module("simverif.props.%s" % pid.lower()).PROP)
        except ModuleNotFoundError:
            pass
    return out


def digests(prop, n, master=0, order=None, tier="quick"):
    prop.setup_process()
    idxs = list(range(n))
    if order == "reverse":
        idxs.reverse()
    res = {}
    for i in idxs:
        rs = derive_seed(master, prop.id, i)
        sc = prop.generate(Draws(rs), i, tier)
        sc.setdefault("run_seed", rs)
        sc.setdefault("index", i)
        out = prop.execute(sc)
        res[i] = out.digest + "|" + ",".join(sorted("%s:%s" % (v.oracle, v.sig) for v in out.violations))
    return res


def child(argv):
    ap = argparse.ArgumentParser()
    ap.add_argument("--prop")
    ap.add_argument("--n", type=int)
    ap.add_argument("--order", default=None)
    a = ap.parse_args(argv)
    from .cli import load_prop

    print("DIGESTS " + json.dumps(digests(load_prop(a.prop), a.n, order=a.order), sort_keys=True))
    return 0


def _spawn(prop_id, n, hashseed, order=None):
    env = dict(os.environ)
    env["PYTHONHASHSEED"] = str(hashseed)
    cmd = [sys.executable, "-B", "-m", "simverif.cli", "selftest", "--child", "--prop", prop_id, "--n", str(n)]
    if order:
        cmd += ["--order", order]
    return subprocess.Popen(cmd, env=env, stdout=subprocess.PIPE, stderr=subprocess.PIPE, text=True)


def _collect(p):
    so, se = p.communicate(timeout=3600)
    for line in so.splitlines():
        if line.startswith("DIGESTS "):
            return {int(k): v for k, v in json.loads(line[8:]).items()}
    raise RuntimeError("child failed: %s\n%s" % (so[-2000:], se[-4000:]))


def main(argv):
    if argv and argv[0] == "--child":
        return child(argv[1:])
    ap = argparse.ArgumentParser()
    ap.add_argument("--tiny", action="store_true")
    ap.add_argument("--n", type=int, default=None)
    ap.add_argument("--props", default=None)
    ap.add_argument("--hashseeds", default=None)
    a = ap.parse_args(argv)
    props = _available()
    if a.props:
        want = set(a.props.upper().split(","))
        props = [p for p in props if p.id in want]
    n = a.n or (6 if a.tiny else 60)
    hashseeds = [int(x) for x in (a.hashseeds.split(",") if a.hashseeds else (["0", "1"] if a.tiny else ["0", "1", "12345"]))]
    # seam probe
    seams.install(seams.SimContext())
    try:
        seams.probe()
    finally:
        seams.uninstall()
    print("selftest: seam probe ok; %d properties, %d seeds each, hash seeds %r" % (len(props), n, hashseeds))
    bad = 0
    procs = []
    for p in props:
        for hs in hashseeds:
            procs.append((p, hs, "fwd", _spawn(p.id, n, hs)))
        procs.append((p, hashseeds[0], "reverse", _spawn(p.id, n, hashseeds[0], "reverse")))
    by_prop = {}
    for p, hs, order, proc in procs:
        try:
            by_prop.setdefault(p.id, []).append(((hs, order), _collect(proc)))
        except Exception as e:
            print("HARNESS-ERROR: selftest child %s hashseed=%s: %s" % (p.id, hs, e), file=sys.stderr)
            bad += 1
    for pid, runs in by_prop.items():
        ref_tag, ref = runs[0]
        mism = 0
        for tag, d in runs[1:]:
            for i in ref:
                if d.get(i) != ref[i]:
                    mism += 1
                    if mism <= 3:
                        print("HARNESS-NONDETERMINISM %s seed-index %d: %r=%s vs %r=%s" % (pid, i, ref_tag, ref[i], tag, d.get(i)), file=sys.stderr)
        print("selftest %s: %d seeds x %d executions, mismatches=%d" % (pid, len(ref), len(runs), mism))
        bad += mism
    return 2 if bad else 0
