"""Writes /verif/MANIFEST.json from the property modules that exist (./check manifest)."""
import importlib
import json
import os

ROOT = os.path.dirname(os.path.dirname(os.path.abspath(__file__)))

NOT_APPLICABLE = {
    "C04": "Whether a `match` advances is a pure function of (pattern, event payload): no schedule, clock, fault, peer or carried state; deciding it needs input generation against a reference matcher (property-based testing), not simulation.",
    "C08": "Parameter binding, defaults, return values and scoping are a pure function of (signature, call form, argument values); nothing in the statement depends on interleaving, time or faults.",
    "C12": "Closure of compiled flows is a static property of the compiler's output for a program; nothing is executed, so there is nothing to schedule or to inject a fault into.",
    "C13": "Parsing is a pure function of the file text (layout invariance, error typing); 'never a hang' is a per-input CPU bound, not a timing property; the single file read has no fault mode the property quantifies over.",
}

LEVEL_TEXT = {
    "exploration": "seeded search over schedules/histories in a deterministic simulation of the real code; a clean batch is evidence, not proof",
    "fault_enumeration": "every single-fault position of each sampled scenario is enumerated (pairs sampled) inside the deterministic simulation; scenarios themselves are sampled",
}

BASELINE_CMD = "cd /repo && /venv/bin/python -m pytest -ra -q -p no:cacheprovider --timeout=900 --continue-on-collection-errors"


def build(claimed):
    checks = []
    not_app = dict(NOT_APPLICABLE)
    for pid in claimed:
        try:
            mod = importlib.import_module("simverif.props.%s" % pid.lower())
        except ModuleNotFoundError:
            not_app[pid] = "check not built yet in this revision of /verif (see DESIGN.md section 4 for the planned simulation); not claimed until it runs"
            continue
        p = mod.PROP
        checks.append({
            "property_id": pid,
            "quick_cmd": "./check %s --tier quick" % pid,
            "thorough_cmd": "./check %s --tier thorough" % pid,
            "evidence_file": "/verif/evidence/%s.json" % pid,
            "replay_cmd_template": "./check replay {path}",
            "engine": "simverif",
            "level_claimed": {
                "category": p.level,
                "text": getattr(p, "level_text", None) or LEVEL_TEXT[p.level],
                "design_ref": "DESIGN.md section 4, %s" % pid,
            },
            "level_note": getattr(p, "level_note", None) or ("trusted base: the simulator kernel (/verif/simverif/kernel), the stub peers listed in the evidence file under components.stub, and the oracle in simverif/props/%s.py; real code: components.real" % pid.lower()),
            "technique": p.technique,
        })
    return {
        "version": 1,
        "setup_cmd": "./check selftest --tiny",
        "hooks": {
            "guard": "NEMO_GUARDRAILS_VERIF",
            "enable": "no hook exists in /repo: every seam is a registry, a constructor argument or a module attribute patched by simverif.kernel.seams at run time; the guard name is reserved but unused",
            "baseline_off_cmd": BASELINE_CMD,
            "source_commits": [],
            "add_only": True,
        },
        "engines": [{
            "name": "simverif",
            "path": "/verif/simverif",
            "serves_properties": [c["property_id"] for c in checks],
            "kind_free_text": "deterministic simulation with fault injection: virtual-time asyncio loop (SimLoop), keyed seeded draws, in-process stub peers (LLM, embedding model, actions, datastore, UMIM client), ddmin minimiser, replay files",
        }],
        "checks": checks,
        "notes": "All checks import nemoguardrails from /repo's working tree (editable install in /venv) at run time, so they always exercise the current sources. Exit 0 held / 1 VIOLATION / 2 harness problem. Known findings: /verif/KNOWN_FINDINGS.txt.",
        "not_applicable": [{"property_id": k, "reason": v} for k, v in sorted(not_app.items())],
    }


def main():
    from .cli import CLAIMED

    m = build(CLAIMED)
    with open(os.path.join(ROOT, "MANIFEST.json"), "w") as f:
        json.dump(m, f, indent=1)
        f.write("\n")
    print("MANIFEST.json: %d checks, %d not applicable/not built" % (len(m["checks"]), len(m["not_applicable"])))
    return 0
