#!/bin/bash
# usage: tools_keep_seed.sh <worktree-id> <seed-name> <property> [test paths...]
# Verifies a sub-agent's breaking change in its scratch worktree and stores it under /verif/seeded/<seed-name>/
set -u
WT=/tmp/wt/$1; NAME=$2; PROP=$3; shift 3
cd $WT || exit 2
DEMO=$(ls DEMO.py test_demo.py 2>/dev/null | head -1)
git diff -- nemoguardrails > /tmp/$NAME.diff
echo "== patch touches:"; git diff --stat -- . | tail -5
echo "== demo WITH change:"; PYTHONPATH=$WT timeout 300 /venv/bin/python $DEMO > /tmp/$NAME.with.log 2>&1; W=$?; tail -2 /tmp/$NAME.with.log; echo "exit=$W"
git apply -R /tmp/$NAME.diff
echo "== demo WITHOUT change:"; PYTHONPATH=$WT timeout 300 /venv/bin/python $DEMO > /tmp/$NAME.without.log 2>&1; WO=$?; tail -2 /tmp/$NAME.without.log; echo "exit=$WO"
git apply /tmp/$NAME.diff
if [ $# -gt 0 ]; then echo "== tests WITH change: $*"; timeout 900 /venv/bin/python -m pytest -q -p no:cacheprovider "$@" 2>&1 | tail -3; fi
mkdir -p /verif/seeded/$NAME
cp /tmp/$NAME.diff /verif/seeded/$NAME/patch.diff
cp $DEMO /verif/seeded/$NAME/demo.py
cp NOTES.md /verif/seeded/$NAME/NOTES.md 2>/dev/null
echo "demo_with_exit=$W demo_without_exit=$WO"
