#!/bin/bash
# usage: tools/keep_meta.sh <worktree-id> <seed-name> <property> <breaks> <needs> <detected_by> <round> [test paths...]
# runs the given test files in the sub-agent's worktree WITH the change, then writes seeded/<name>/meta.json
WT=/tmp/wt/$1; NAME=$2; PROP=$3; BREAKS=$4; NEEDS=$5; DET=$6; ROUND=$7; shift 7
cd $WT || exit 2
RES=$(PYTHONPATH=$WT timeout 900 /venv/bin/python -m pytest -q -p no:cacheprovider "$@" 2>&1 | tail -1)
echo "tests with change: $RES"
jq -n --arg p "$PROP" --arg b "$BREAKS" --arg n "$NEEDS" --arg d "$DET" --arg s "independent sub-agent, round $ROUND (given the property record, a scratch worktree, and the earlier ideas to avoid)" \
  --arg v "demo.py exits non-zero with the patch and 0 without it in a scratch worktree (tools_keep_seed.sh); the sub-agent ran the whole suite against the baseline (no stable_pass test fails); re-run here with the change: $* -> $RES" \
  '{property:$p, breaks:$b, needs:$n, detected_by:$d, source:$s, verified:$v}' > /verif/seeded/$NAME/meta.json
