"""Development aid (not a registered check): run repository tests that normally need the FastEmbed model download
with the simulator's deterministic embedding model registered under the default engine name.
usage: cd /repo && PYTHONPATH=/verif /venv/bin/python -B /verif/tools/offline_pytest.py tests/test_subflows.py ...
Used to see that a `fix:` commit does not change the behaviour the always-failing (offline) tests pin."""
import sys

import pytest

from nemoguardrails.embeddings.providers.registry import EmbeddingProviderRegistry
from simverif.peers.embed import SimEmbeddingModel


class Fake(SimEmbeddingModel):
    engine_name = "FastEmbed"


EmbeddingProviderRegistry().items["FastEmbed"] = Fake
sys.exit(pytest.main(["-q", "-p", "no:cacheprovider"] + sys.argv[1:]))
