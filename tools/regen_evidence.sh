#!/bin/bash
# Re-runs every registered quick check (seed 0) in /verif against /repo and rewrites /verif/evidence/<id>.json.
cd "$(dirname "$(readlink -f "$0")")/.." || exit 2
rc=0
for id in C01 C02 C03 C05 C06 C07 C09 C10 C11 C14 C15 C16 C17 C18 C19 C20; do
  out=$(VERIF_SEED=0 ./check $id --tier quick 2>&1); e=$?
  echo "$id exit=$e $(echo "$out" | grep -E "quick seed=" | sed 's/faults=.*wall/wall/')"
  echo "$out" | grep -E "^VIOLATION|^HARNESS|stuck at zero"
  [ $e -ne 0 ] && rc=1
done
exit $rc
