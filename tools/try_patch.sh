#!/bin/bash
# usage: tools/try_patch.sh <patch.diff> <PROPERTY> [check args...]
# Runs a quick check against a scratch worktree of /repo's HEAD with the patch applied; /repo, evidence/ and replays/ stay untouched.
set -u
P=$(readlink -f "$1"); PROP=$2; shift 2
WT=/dev/shm/try-wt-$$; OUT=/dev/shm/try-out-$$
git -C /repo worktree add --detach $WT HEAD -q || exit 2
git -C $WT apply "$P" || { git -C /repo worktree remove --force $WT; exit 2; }
cd "$(dirname "$(readlink -f "$0")")/.."
PYTHONPATH=$WT VERIF_EVIDENCE_DIR=$OUT/evidence VERIF_REPLAY_DIR=$OUT/replays ./check $PROP --tier quick "$@" 2>&1 | grep -E "^violation|^   |^OK|quick seed|HARNESS" | cut -c1-600
git -C /repo worktree remove --force $WT; git -C /repo worktree prune
echo "(replays kept in $OUT/replays)"
